"""C09 - the scheduler daemon starts each DAG exactly at its scheduled minutes (DESIGN.md section 5, C09).

Per run: (1) the Coq theorems of coq/Props/C09.v, (2) the real code driven by harness/cmd/cron (cron expressions
through dag.LoadYAML and Parsed.Next; schedule values; daemon histories against the real scheduler + watcher
with a recording client), (3) correspondence = the Coq models Cron / Daemon evaluated on the same cases,
(4) MONITOR = the property itself, evaluated by tools/props/cron_lib.py (independent python cron matcher) on the
calls the real daemon issued.  The defects this check found in the pinned tree - F9a (zero Next invoked at every
tick), F9b (two start schedules matching one minute started the DAG twice), F13a / F13b (loader panics killing the
daemon) - are repaired in /repo; the monitor still classifies them and reports any recurrence as a violation."""
import json
import os
from concurrent.futures import ThreadPoolExecutor

import vlib
from props import cron_lib as L

EXPR_SHARD = 150
SEQ_SHARD = 40
HEADER = ("From Coq Require Import List String Ascii ZArith.\nImport ListNotations.\nOpen Scope string_scope.\n"
          "From BD.Cron Require Import Model Schedule Check.\nFrom BD.Daemon Require Import Model Check.\n")


# ---------------------------------------------------------------------------------------------
# model side
# ---------------------------------------------------------------------------------------------

def eval_shard(ctx, name, kind, cases):
    if kind == "expr":
        body = "Definition cases : list expr_case := [\n%s\n].\nDefinition M := Eval vm_compute in bad_exprs cases.\nPrint M.\n" % \
               ";\n".join(L.coq_expr(c) for c in cases)
    elif kind == "sched":
        body = "Definition cases : list sched_case := [\n%s\n].\nDefinition M := Eval vm_compute in bad_scheds cases.\nPrint M.\n" % \
               ";\n".join(L.coq_sched(c) for c in cases)
    else:
        body = "Definition cases : list seq_case := [\n%s\n].\nDefinition M := Eval vm_compute in bad_seqs cases.\nPrint M.\n" % \
               ";\n".join(L.coq_seq(c) for c in cases)
    rc, out, dt = vlib.coq_eval(ctx.scratch, name, HEADER + body)
    if rc != 0:
        return None, out[-1500:]
    return vlib.coq_list_result(out, "M"), None


def model_check(ctx, cases):
    """Evaluates the Coq models on the cases; reports every disagreement as a correspondence failure."""
    jobs = []
    for kind, size in (("expr", EXPR_SHARD), ("sched", 1000), ("seq", SEQ_SHARD)):
        cs = [c for c in cases if c["kind"] == kind and not c.get("hung") and not c.get("skipped")]
        for i in range(0, len(cs), size):
            jobs.append((kind, cs[i:i + size]))
    with ThreadPoolExecutor(max_workers=14) as ex:
        results = list(ex.map(lambda t: eval_shard(ctx, "cases_c09_%d" % t[0], t[1][0], t[1][1]), enumerate(jobs)))
    nbad = 0
    for (kind, cs), (res, err) in zip(jobs, results):
        if res is None:
            ctx.fail("correspondence", "the model could not be evaluated on a shard of %s cases (coqc failed)" % kind, {"log": err})
            nbad += 1
            continue
        for r in res:
            nbad += 1
            if kind == "seq":
                k, i = r
                c = cs[k]
                i = L.expanded_ops(c)[i][0] if i < len(L.expanded_ops(c)) else len(c["ops"]) - 1
                ctx.fail("correspondence", "daemon model and implementation differ at op %d (%s) of history %d: implementation calls %s, alive=%s"
                         % (i, c["ops"][i]["op"], c["k"], c["ops"][i]["calls"], c["ops"][i]["alive"]),
                         {"case": c, "op": i})
            elif kind == "expr":
                c = cs[r]
                ctx.fail("correspondence", "cron model and implementation differ on expression %r (implementation verdict %d)"
                         % (c.get("expr", ""), c["verdict"]), {"case": c})
            else:
                c = cs[r]
                ctx.fail("correspondence", "schedule-value model and implementation differ (implementation verdict %d, counts %s)"
                         % (c["verdict"], c.get("counts")), {"case": c})
    return nbad


# ---------------------------------------------------------------------------------------------
# monitor
# ---------------------------------------------------------------------------------------------

def monitor_expr(c):
    """Independent reading of a tame expression against what the implementation answered.
    -> (judged?, list of (what, cls))"""
    e = c.get("expr", "")
    p = L.parse_expr(e)
    if p is None:
        return False, []
    if p == "invalid":
        if c["verdict"] != 1:
            return True, [("invalid expression %r not refused with an error (verdict %d)" % (e, c["verdict"]),
                           {"class": "cron-verdict", "cause": "unexplained"})]
        return True, []
    if c["verdict"] != 0:
        return True, [("well-formed expression %r refused (verdict %d: %s)" % (e, c["verdict"], c.get("err", "")),
                       {"class": "cron-verdict", "cause": "unexplained"})]
    bad = []
    for t, n in c.get("obs") or []:
        r = L.next_after(p, t)
        if r == "skip":
            continue
        if r != n:
            bad.append(("Next(%d) of %r = %s, an independent search gives %s" % (t, e, n, r), {"class": "cron-next", "cause": "unexplained"}))
            break
    return True, bad


def seq_size(c):
    return (len(c["ops"]), len((c.get("files") or [])))


def shrink_seq(tool, ctx, c, target):
    """Greedy deletion of ops / files while the monitor still reports a violation of the same class."""
    def fails(x):
        return any(v["cls"] == target for v in L.monitor_seq(x))
    cur = c
    for _ in range(60):
        cands = []
        for i in range(1, len(cur["ops"])):
            d = dict(cur)
            d["ops"] = [strip_obs(o) for j, o in enumerate(cur["ops"]) if j != i]
            cands.append(d)
        for i in range(len((cur.get("files") or []))):
            d = dict(cur)
            d["files"] = (cur.get("files") or [])[:i] + (cur.get("files") or [])[i + 1:]
            d["ops"] = [strip_obs(o) for o in cur["ops"]]
            cands.append(d)
        if not cands:
            break
        res = [x for x in reeval(tool, ctx, cands[:120]) if fails(x)]
        if not res:
            break
        cur = min(res, key=seq_size)
    return cur


def shrink_hung(tool, ctx, c, v):
    """A hung daemon costs the watchdog's deadline per candidate: only a handful of targeted candidates are tried -
    (daemon start, the last edit the watcher did not answer, the tick that hung), then with fewer files."""
    ops = c["ops"]
    t = v["op"]
    edits = [j for j in range(t) if ops[j]["op"] in ("write", "rename", "remove") and not ops[j].get("synced", True)]
    edits = edits or [j for j in range(t) if ops[j]["op"] in ("write", "rename", "remove")]
    if not edits:
        return c
    base = dict(c)
    base["ops"] = [{"op": "restart"}, strip_obs(ops[edits[-1]]), strip_obs(ops[t])]
    cands = [base]
    files = c.get("files") or []
    for i in range(len(files)):
        d = dict(base)
        d["files"] = files[:i] + files[i + 1:]
        cands.append(d)
    if len(files) > 1:
        for i in range(len(files)):
            d = dict(base)
            d["files"] = [files[i]]
            cands.append(d)
    res = [x for x in reeval(tool, ctx, cands[:8]) if any(y["cls"] == v["cls"] for y in L.monitor_seq(x))]
    return min(res, key=seq_size) if res else c


def strip_obs(o):
    return {k: v for k, v in o.items() if k not in ("calls", "alive", "synced", "ticks", "late", "hung", "skipped")}


def reeval(tool, ctx, cases):
    p_in = os.path.join(ctx.scratch, "re-in.jsonl")
    with open(p_in, "w") as f:
        for c in cases:
            f.write(json.dumps(c) + "\n")
    p = os.path.join(ctx.scratch, "re-out.jsonl")
    rc, out, dt = vlib.run_tool(tool, [p, "replay", p_in], timeout=900)
    return vlib.read_jsonl(p) if rc == 0 else []


def run_monitors(ctx, tool, cases, stats, do_shrink=True):
    judged = 0
    shrunk = {}
    for c in cases:
        if c["kind"] == "expr":
            if c["verdict"] == 3:
                ctx.fail("monitor", "the driver could not interpret the loader's answer: %s" % c.get("err"), c)
                continue
            if c["verdict"] == 2:
                # whatever the expression: the loader must answer with a value or an error (a panic kills the daemon)
                ctx.fail("monitor", "the loader panics on schedule %r: %s" % (c.get("expr", ""), c.get("err", "")), c,
                         cls={"class": "loader-panic", "cause": "unexplained"})
                continue
            j, bad = monitor_expr(c)
            judged += 1 if j else 0
            for what, cls in bad:
                ctx.fail("monitor", what, c, cls=cls)
        elif c["kind"] == "sched":
            if c["verdict"] == 2:
                ctx.fail("monitor", "the loader panics on a schedule value: %s" % c.get("err", ""), c,
                         cls={"class": "loader-panic", "cause": "unexplained"})
        elif c["kind"] == "seq" and c.get("skipped"):
            stats["histories_skipped_after_hangs"] = stats.get("histories_skipped_after_hangs", 0) + 1
        elif c["kind"] == "seq":
            if c.get("hung"):
                stats["histories_hung"] = stats.get("histories_hung", 0) + 1
            unsynced = [i for i, o in enumerate(c["ops"]) if not o.get("synced", True)]
            if unsynced:
                stats["unsynced_ops"] = stats.get("unsynced_ops", 0) + len(unsynced)
            vs = L.monitor_seq(c) + L.loop_timing(c)
            for v in vs:
                key = json.dumps(v["cls"], sort_keys=True)
                stats.setdefault("monitor_classes", {})
                stats["monitor_classes"][key] = stats["monitor_classes"].get(key, 0) + 1
                case = {"case": c, "op": v["op"], "file": v["file"]}
                if ctx.match_known(v["cls"], "monitor") is None and do_shrink and key not in shrunk and tool is not None:
                    shrunk[key] = True
                    small = shrink_hung(tool, ctx, c, v) if v["cls"].get("class") == "hung" else shrink_seq(tool, ctx, c, v["cls"])
                    vv = [x for x in L.monitor_seq(small) if x["cls"] == v["cls"]]
                    if vv:
                        case = {"case": small, "op": vv[0]["op"], "file": vv[0]["file"], "shrunk_from": c["k"]}
                ctx.fail("monitor", v["what"], case, cls=v["cls"])
    stats["expr_judged_by_monitor"] = stats.get("expr_judged_by_monitor", 0) + judged


# ---------------------------------------------------------------------------------------------
# evidence
# ---------------------------------------------------------------------------------------------

def coverage(ctx, cases, stats):
    ex = [c for c in cases if c["kind"] == "expr"]
    sc = [c for c in cases if c["kind"] == "sched"]
    sq = [c for c in cases if c["kind"] == "seq"]
    nobs = sum(len(c.get("obs") or []) for c in ex)
    ticks = [o for c in sq for o in c["ops"] if o["op"] in ("tick", "boot")]
    ticks += [{"calls": t["calls"]} for c in sq for o in c["ops"] if o["op"] == "loop" for t in (o.get("ticks") or [])]
    kinds = {}
    for c in sq:
        for o in c["ops"]:
            kinds[o["op"]] = kinds.get(o["op"], 0) + 1
    distinct = set()
    for c in ex:
        if c["verdict"] == 0 and (c.get("obs") or []):
            distinct.add(c.get("expr", ""))
    for c in sq:
        if any(o["calls"] for o in c["ops"]):
            distinct.add(json.dumps([(c.get("files") or []), [strip_obs(o) for o in c["ops"]]], sort_keys=True))
    ctx.cov["evaluations"] = len(ex) + len(sc) + len(sq)
    ctx.cov["traces_validated_against_impl"] = len(sq)
    ctx.cov["distinct_nontrivial"] = len(distinct)
    ctx.cov["rule"] = ("expression cases: a cron expression through the real dag.LoadYAML (accept / error / panic) and, when accepted, "
                       "Parsed.Next on ~20+ instants (month ends, leap days incl. 2000/2100/2400, year ends, the epoch, pre-1970, random "
                       "minutes 2019-2034, the schedule's own activations and the second before them); schedule-value cases: string / "
                       "list / start-stop-restart map forms and malformed variants; daemon histories: a DAG directory and 14-80 operations "
                       "(ticks with lag and bunching, history changes, suspend, file writes / removals / renames seen by the real watcher, "
                       "daemon restarts; a stream boots the daemon through the real Scheduler.Start at chosen instants inside a minute) against the real scheduler.New with a recording client.  distinct = distinct accepted expressions "
                       "with observations + distinct daemon histories; non-trivial = expression accepted with >= 1 Next observation, "
                       "history with >= 1 client call")
    ctx.cov["expressions"] = {"total": len(ex), "accepted": sum(1 for c in ex if c["verdict"] == 0),
                              "rejected": sum(1 for c in ex if c["verdict"] == 1), "panic": sum(1 for c in ex if c["verdict"] == 2),
                              "next_observations": nobs,
                              "zero_next_observations": sum(1 for c in ex for o in (c.get("obs") or []) if o[1] is None),
                              "streams": count_by(ex, "stream"),
                              "judged_by_independent_matcher": stats.get("expr_judged_by_monitor", 0)}
    ctx.cov["schedule_values"] = {"total": len(sc), "accepted": sum(1 for c in sc if c["verdict"] == 0),
                                  "rejected": sum(1 for c in sc if c["verdict"] == 1), "panic": sum(1 for c in sc if c["verdict"] == 2)}
    ctx.cov["daemon"] = {"histories": len(sq), "ops": kinds, "ticks": len(ticks), "ticks_with_calls": sum(1 for o in ticks if o["calls"]),
                         "calls": sum(len(o["calls"]) for o in ticks), "daemon_deaths": sum(1 for c in sq if any(not o["alive"] for o in c["ops"][1:])),
                         "boots_through_Scheduler_Start": kinds.get("boot", 0),
                         "own_loop_runs": kinds.get("loop", 0),
                         "own_loop_ticks": sum(len(o.get("ticks") or []) for c in sq for o in c["ops"] if o["op"] == "loop"),
                         "own_loop_real_clock_runs": sum(1 for c in sq for o in c["ops"] if o["op"] == "loop" and o.get("real")),
                         "watcher_process_crashes": sum(1 for c in sq if c.get("crashed", -1) >= 0),
                         "unsynced_ops": stats.get("unsynced_ops", 0),
                         "histories_hung": stats.get("histories_hung", 0),
                         "histories_skipped_after_hangs": stats.get("histories_skipped_after_hangs", 0),
                         "ticks_with_a_blocked_start": sum(1 for c in sq for o in c["ops"] if o.get("block")),
                         "monitor_classes": stats.get("monitor_classes", {})}
    for c in ex[60:62]:
        ctx.sample({"expr": c.get("expr", ""), "verdict": c["verdict"], "obs": (c.get("obs") or [])[:3]})
    for c in sq[-2:]:
        ctx.sample({"files": (c.get("files") or []), "ops": c["ops"][:8]})
    ctx.cov["trusted_base"] += [
        "robfig/cron v3.0.1 Parser.Parse / SpecSchedule.Next re-implemented in Gallina (coq/Cron/Model.v); fixed-offset zones only, DST not modelled; process runs with TZ=UTC",
        "daemon model (coq/Daemon/Model.v): the guards of one tick read the latest status as of the beginning of the tick (the jobs run in concurrent goroutines); "
        "a Start/Restart call makes the DAG running with start minute = wall-clock minute (recording client of the harness)",
        "YAML decoding of the schedule value (yaml.v2 + mapstructure) is represented by a small tree type (coq/Cron/Schedule.v); a file that fails before the "
        "schedule is reached is a load error by definition",
        "monitor: tools/props/cron_lib.py (independent python cron matcher on a tame grammar; expressions outside it are compared model-vs-implementation only)",
    ]


def count_by(cs, key):
    d = {}
    for c in cs:
        d[c.get(key)] = d.get(c.get(key), 0) + 1
    return d


# ---------------------------------------------------------------------------------------------
# thorough tier: multi-year sweeps through the extracted model
# ---------------------------------------------------------------------------------------------

EXTRACT = """From Coq Require Import List String ZArith Extraction ExtrOcamlBasic.
From BD.Cron Require Import Model Check.
Definition sweep_ok (e : string) (obs : list (Z * option Z)) : bool :=
  match parse e with POk sp => forallb (obs_ok sp) obs | _ => false end.
Definition sweep_naive_ok (e : string) (obs : list (Z * option Z)) : bool :=
  match parse e with POk sp => forallb (obs_ok_naive sp) obs | _ => false end.
Extraction "cronx.ml" sweep_ok sweep_naive_ok.
"""

OCAML_DRIVER = r"""
(* reads lines: <n|f> <expr-bytes-as-decimal,comma-separated or '-'> <t:next|t:z ...>  ; prints 1/0 per line *)
open Cronx
let rec pos_of_int n = if n = 1 then XH else if n land 1 = 0 then XO (pos_of_int (n lsr 1)) else XI (pos_of_int (n lsr 1))
let z_of_int n = if n = 0 then Z0 else if n > 0 then Zpos (pos_of_int n) else Zneg (pos_of_int (-n))
let ascii_of_int c = Ascii (c land 1 = 1, c land 2 = 2, c land 4 = 4, c land 8 = 8, c land 16 = 16, c land 32 = 32, c land 64 = 64, c land 128 = 128)
let rec string_of_codes = function [] -> EmptyString | c :: r -> String (ascii_of_int c, string_of_codes r)
let () =
  try
    while true do
      let line = input_line stdin in
      match String.split_on_char ' ' line with
      | mode :: codes :: obs ->
          let cs = if codes = "-" then [] else List.map int_of_string (String.split_on_char ',' codes) in
          let e = string_of_codes cs in
          let ob = List.map (fun o -> match String.split_on_char ':' o with
                     | [t; "z"] -> (z_of_int (int_of_string t), None)
                     | [t; n] -> (z_of_int (int_of_string t), Some (z_of_int (int_of_string n)))
                     | _ -> failwith "bad obs") (List.filter (fun s -> s <> "") obs) in
          let r = if mode = "n" then sweep_naive_ok e ob else sweep_ok e ob in
          print_string (if r then "1\n" else "0\n")
      | _ -> print_string "0\n"
    done
  with End_of_file -> ()
"""


def extracted_sweep(ctx, tool):
    """Multi-year sweeps: for a set of accepted expressions, follow the implementation's Next chain through several
    years (every activation and the second before it) and check each answer with the extracted model; a sample is also
    checked against the extracted naive search."""
    d = os.path.join(ctx.scratch, "extr")
    os.makedirs(d, exist_ok=True)
    rc, out, dt = vlib.coq_eval(d, "extract_c09", EXTRACT)
    if rc != 0 or not os.path.exists(os.path.join(d, "cronx.ml")):
        ctx.fail("correspondence", "extraction of the cron model failed", {"log": out[-1500:]})
        return
    open(os.path.join(d, "drv.ml"), "w").write(OCAML_DRIVER)
    rc, out, dt = vlib.sh("ocamlfind ocamlopt -w -a -package str cronx.mli cronx.ml drv.ml -o sweep 2>&1 || ocamlopt -w -a cronx.mli cronx.ml drv.ml -o sweep",
                          cwd=d, timeout=900)
    if not os.path.exists(os.path.join(d, "sweep")):
        ctx.fail("correspondence", "the extracted model does not compile", {"log": out[-1500:]})
        return
    p_in = os.path.join(ctx.scratch, "sweep-in.jsonl")
    p = os.path.join(ctx.scratch, "sweep-out.jsonl")
    rc, out, dt = vlib.run_tool(tool, [p, "sweep"], env_extra={"VERIF_SEED": str(ctx.seed)}, timeout=1500)
    if rc != 0:
        ctx.fail("correspondence", "cron driver failed in sweep mode", {"log": out[-1500:]})
        return
    cases = vlib.read_jsonl(p)
    lines = []
    far_budget = 4   # the naive search walks minute by minute: only a few far / empty answers are affordable
    for c in cases:
        codes = ",".join(str(b) for b in c["expr"].encode("utf-8")) or "-"
        if c.get("naive"):
            keep = []
            for t, n in c["obs"]:
                near = n is not None and n * 60 - t < 3 * 86400
                if near or far_budget > 0:
                    keep.append([t, n])
                    if not near:
                        far_budget -= 1
            c["obs"] = keep
        obs = " ".join("%d:%s" % (t, "z" if n is None else str(n)) for t, n in c["obs"])
        lines.append("%s %s %s" % ("n" if c.get("naive") else "f", codes, obs))
    open(os.path.join(d, "in.txt"), "w").write("\n".join(lines) + "\n")
    # the extracted naive search builds its fuel as a unary nat of ~3 million nodes: needs a deep stack
    rc, out, dt = vlib.sh("ulimit -s unlimited 2>/dev/null || ulimit -s 4000000; exec ./sweep < in.txt", cwd=d, timeout=1500)
    res = out.split()
    nobs = 0
    for c, r in zip(cases, res):
        nobs += len(c["obs"])
        if r != "1":
            ctx.fail("correspondence", "extracted cron model and implementation differ on a multi-year sweep of %r" % c["expr"], {"case": {k: c[k] for k in ("expr", "naive")},
                                                                                                                                 "obs_head": c["obs"][:5]})
    if len(res) != len(cases):
        ctx.fail("correspondence", "the extracted model answered %d of %d sweeps" % (len(res), len(cases)), {"log": out[-500:]})
    ctx.cov["extracted_sweeps"] = {"expressions": len(cases), "next_observations": nobs, "naive_checked": sum(1 for c in cases if c.get("naive")),
                                   "seconds": round(dt, 1)}
    ctx.cov["trusted_base"].append("thorough tier: Coq extraction (ExtrOcamlBasic only) + OCaml 4.13 compiler for the multi-year sweeps")


# ---------------------------------------------------------------------------------------------
# entry points
# ---------------------------------------------------------------------------------------------

def load_corpus():
    p = os.path.join(vlib.VERIF, "corpus", "C09.jsonl")
    return vlib.read_jsonl(p) if os.path.exists(p) else []


def own_fragment_first(ctx):
    """known_findings.d/C09.json is authoritative for this property: an entry it marks `fixed` suppresses nothing even
    if the merged known_findings.json still carries an older state for the same id."""
    p = os.path.join(vlib.VERIF, "known_findings.d", "C09.json")
    if os.path.exists(p):
        frag = {e["id"]: e for e in json.load(open(p))}
        ctx.known = [frag.get(k["id"], k) for k in ctx.known]
        ctx.known += [e for i, e in frag.items() if i not in {k["id"] for k in ctx.known} and e.get("property") == ctx.pid]
        ctx.known = [k for k in ctx.known if k.get("state") == "known"]


def run(ctx, replay_cases=None):
    own_fragment_first(ctx)
    ctx.proofs(extra=["Cron/Check.vo", "Daemon/Check.vo"])
    tool, out, _ = vlib.go_build("cron", ctx.scratch)
    if tool is None:
        ctx.fail("correspondence", "harness does not build against /repo", {"log": out[-2000:]})
        return ctx.finish()
    stats = {}
    if replay_cases is None:
        cases = []
        corpus = load_corpus()
        if corpus:
            cases += reeval(tool, ctx, corpus)
            stats["corpus_cases"] = len(corpus)
        p = os.path.join(ctx.scratch, "cron.jsonl")
        # hard limit: the driver has its own watchdogs (a hung daemon costs seconds, not the run); this is the backstop
        limit = 600 if ctx.tier == "quick" else 3000
        rc, out, dt = vlib.run_tool(tool, [p, ctx.tier], env_extra={"VERIF_SEED": str(ctx.seed)}, timeout=limit)
        if rc != 0:
            ctx.fail("correspondence", "cron driver failed" if rc != 124 else
                     "cron driver did not finish within %d s and was killed (something in the daemon hangs)" % limit, {"log": out[-2000:]})
            return ctx.finish()
        ctx.cov["driver_seconds"] = round(dt, 1)
        cases += [c for c in vlib.read_jsonl(p) if c["kind"] != "meta"]
    else:
        cases = replay_cases
    import time
    t0 = time.time()
    run_monitors(ctx, tool, cases, stats)
    t1 = time.time()
    model_check(ctx, cases)
    t2 = time.time()
    coverage(ctx, cases, stats)
    ctx.cov["seconds"] = {"monitor": round(t1 - t0, 1), "model": round(t2 - t1, 1)}
    ctx.assumptions = [
        "the process runs with TZ=UTC; the property's calendar is the UTC calendar (plus fixed-offset zones); DST is not modelled",
        "tick minutes never decrease and a tick never runs before its minute (wall clock >= tick); the latest status changes monotonically "
        "(C09_no_double; the correspondence also exercises histories that violate this)",
        "the guards of the jobs of one tick see the status as of the beginning of the tick",
    ]
    if ctx.tier == "thorough" and replay_cases is None:
        extracted_sweep(ctx, tool)
        ctx.coqchk()

    def search():
        # the proofs or the correspondence broke but no monitor failed: look for a concrete failing input with other seeds
        for extra in range(1, 4):
            p2 = os.path.join(ctx.scratch, "search-%d.jsonl" % extra)
            rc2, _, _ = vlib.run_tool(tool, [p2, "quick"], env_extra={"VERIF_SEED": str(ctx.seed + 7919 * extra)}, timeout=1200)
            if rc2 != 0:
                continue
            for c in vlib.read_jsonl(p2):
                if c["kind"] == "seq":
                    for v in L.monitor_seq(c):
                        if ctx.match_known(v["cls"], "monitor") is None:
                            return {"case": shrink_seq(tool, ctx, c, v["cls"]), "what": v["what"], "cls": v["cls"]}
                elif c["kind"] == "expr":
                    _, bad = monitor_expr(c)
                    if bad:
                        return {"case": c, "what": bad[0][0]}
        return None

    return ctx.finish(search=search)


def replay(ctx, path):
    body = json.load(open(path))
    cases = []

    def grab(x):
        if isinstance(x, dict):
            if x.get("kind") in ("expr", "sched", "seq"):
                cases.append(x)
            else:
                for v in x.values():
                    grab(v)
        elif isinstance(x, list):
            for v in x:
                grab(v)
    grab(body)
    own_fragment_first(ctx)
    tool, out, _ = vlib.go_build("cron", ctx.scratch)
    if tool is None:
        ctx.fail("correspondence", "harness does not build against /repo", {"log": out[-2000:]})
        return ctx.finish()
    # the observations are re-taken from the current tree
    fresh = reeval(tool, ctx, [strip_case(c) for c in cases])
    if len(fresh) != len(cases):
        ctx.fail("correspondence", "cron driver failed on the replay file", {"cases": len(cases), "answers": len(fresh)})
        return ctx.finish()
    return run(ctx, replay_cases=fresh)


def strip_case(c):
    d = dict(c)
    if d.get("kind") == "seq":
        d["ops"] = [strip_obs(o) for o in d["ops"]]
    if d.get("kind") == "expr" and not d.get("ts"):
        d["ts"] = [t for t, _ in (d.get("obs") or [])]
    return d
