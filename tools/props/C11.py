"""C11 - parameters and step outputs reach the steps that use them, unchanged (DESIGN.md section 5, C11).

Correspondence: the Coq model `Params` (tokenizer, Trim/unescape, stringify, join, doc_render, V0/V1, TrimSpace, output
entry) against the real dag.LoadYAML / dag.Load / model.Status / scheduler + real child processes.
Monitors (the property itself on what the implementation did, independent of the model):
  M1  every documented item yields exactly its value (DAG.Params, and what children see as $i / $NAME / arguments);
  M2  record -> re-parse (what retry and restart do) gives back exactly the parameter values of the first run;
  M3  every consumer (distance 1, 2, exit handler, step of a retry run) sees TrimSpace(stdout) of the producer, and the
      producer does finish.
Model and check describe the REPAIRED code (ff6cf28 F11c, 0f1faec F11b, f5eca82 F12c).  Known findings that remain (narrow
classes): quoted-trailing-backslash (what is left of F11b; also when recording), positional-eq-exported (what is
left of F11a, fixed by 92cc1cc: a positional value that looks like NAME=value is exported as NAME by a retry/restart),
F11d output-captures-stderr, output-exceeds-exec-string
(streams: parse, doc, env, loop, subst, cli, restart, retrycmd, subwf, out) (a captured value longer than execve takes in one environment string: every later step fails
to start).
"""
import base64
import json
import os

import vlib
from vlib import cstring, clist
from props import paramslog_lib as pl

RE2_WS = set(b"\t\n\f\r ")
GO_SPACE = set([9, 10, 11, 12, 13, 32, 0x85, 0xA0, 0x1680, 0x2028, 0x2029, 0x202F, 0x205F, 0x3000]) | set(range(0x2000, 0x200B))
KINDS = {"w": 0, "q": 1, "nw": 2, "nq": 3}


def b(s):
    return s.encode("utf-8") if isinstance(s, str) else bytes(s)


# ---- value classes (mirror of Params/Model.v; cross-checked against the Coq definitions on every run) ----------
def word_ok(v):
    return len(v) > 0 and all(c not in RE2_WS and c != 34 for c in v) and v[0] != 96


def name_ok(n):
    return len(n) > 0 and all(c not in RE2_WS and c != 61 and c != 34 for c in n)


def no_inner_eq(v):
    return v[:1] == b"=" or b"=" not in v


def qval_ok(v):
    return not v.endswith(b"\\")


def item_class(it):
    """None if the item is in V0, else the reason it is not."""
    k, n, v = it["kind"], b(it.get("name", "")), b(it["value"])
    if k in ("nw", "nq") and not name_ok(n):
        return "bad-name"
    if k in ("w", "nw"):
        if not word_ok(v) or (k == "w" and not no_inner_eq(v)):
            return "not-a-word"
        return None
    if not qval_ok(v):
        return "quoted-trailing-backslash"
    return None


# ---- model.Params since 92cc1cc (mirror of quote_param / V1 of Params/Model.v) ---------------------------------
SIMPLE_BAD = RE2_WS | {34, 96}


def qsplit(st):
    i = st.find(b"=")
    if i > 0 and all(c not in RE2_WS and c != 34 for c in st[:i]):
        return st[:i], st[i + 1:]
    return b"", st


def plain(nm, v):
    return len(v) > 0 and all(c not in SIMPLE_BAD for c in v) and (len(nm) > 0 or b"=" not in v)


def bs_ok(st):
    nm, v = qsplit(st)
    return plain(nm, v) or not v.endswith(b"\\")


def v1_pair(n, v):
    st = (n + b"=" + v) if n else v
    if not bs_ok(st):
        return False
    return name_ok(n) if n else qsplit(v)[0] == b""


def pos_eq_name(it):
    """The name a retry / restart exports for a positional item that looks like NAME=value (when it is a plain word)."""
    import re as _re
    if it.get("name"):
        return None
    nm = qsplit(b(it["value"]))[0].decode("utf-8", "replace")
    return nm if _re.fullmatch(r"[A-Za-z_][A-Za-z0-9_]*", nm) else None


def roundtrip_class(items):
    for it in items:
        n, v = b(it.get("name", "")), b(it["value"])
        if not bs_ok((n + b"=" + v) if n else v):
            return "quoted-trailing-backslash"
    for it in items:
        if not v1_pair(b(it.get("name", "")), b(it["value"])):
            return "positional-eq-exported"
    return "v1"


def exported_mismatch(c, items):
    """A retry / restart must not export anything the first run did not."""
    pr = c.get("probes") or {}
    for it in items:
        nm = pos_eq_name(it)
        if nm is None:
            continue
        for who in ("env", "handler"):
            p1, p2 = pr.get(who), pr.get("re-" + who)
            if not p1 or not p2 or p1.get("env") is None or p2.get("env") is None:
                continue
            if p1["env"].get(nm) != p2["env"].get(nm):
                return ("the positional value %r comes back as a NAMED parameter: $%s = %r in the re-run, %r in the first run"
                        % (it["value"], nm, unb64(p2["env"].get(nm)), unb64(p1["env"].get(nm))))
    return None


def stringify(it):
    return (it["name"] + "=" + it["value"]) if it.get("name") else it["value"]


# ---- Go's strings.TrimSpace, written independently ------------------------------------------------------------
def _decode(bs):
    """(rune, size) of the first rune of bs as utf8.DecodeRune does; invalid -> (0xFFFD, 1)."""
    if not bs:
        return (0xFFFD, 0)
    c = bs[0]
    if c < 0x80:
        return (c, 1)
    n = 2 if 0xC2 <= c <= 0xDF else 3 if 0xE0 <= c <= 0xEF else 4 if 0xF0 <= c <= 0xF4 else 0
    if n == 0 or len(bs) < n:
        return (0xFFFD, 1)
    try:
        return (ord(bs[:n].decode("utf-8")), n)
    except UnicodeDecodeError:
        return (0xFFFD, 1)


def _decode_last(bs):
    end = len(bs)
    if end == 0:
        return (0xFFFD, 0)
    if bs[end - 1] < 0x80:
        return (bs[end - 1], 1)
    lim = max(0, end - 4)
    start = end - 2
    while start >= lim:
        if bs[start] & 0xC0 != 0x80:
            break
        start -= 1
    if start < 0:
        start = 0
    r, n = _decode(bs[start:end])
    if start + n != end:
        return (0xFFFD, 1)
    return (r, n)


def go_trim(bs):
    i = 0
    while i < len(bs):
        r, n = _decode(bs[i:])
        if r in GO_SPACE:
            i += n
        else:
            break
    j = len(bs)
    while j > i:
        r, n = _decode_last(bs[i:j])
        if r in GO_SPACE:
            j -= n
        else:
            break
    return bs[i:j]


def big_output(n):
    bb = bytearray((97 + (i + i // 26 + i // 676) % 26) for i in range(n))
    if n >= 8:
        bb[0:3] = b" \n\t"
        bb[n - 3:n] = b"\n \n"
    return bytes(bb)


def out_bytes(c):
    if c.get("gen") == "size":
        return big_output(c["size"])
    return base64.b64decode(c.get("out_b64", "") or "")


def is_utf8(bs):
    try:
        bs.decode("utf-8")
        return True
    except UnicodeDecodeError:
        return False


def unb64(x):
    return None if x is None else base64.b64decode(x)


# ---- monitors -------------------------------------------------------------------------------------------------
def monitor(c):
    """Returns None or (what, cls)."""
    st = c["stream"]
    if st == "subst":
        return monitor_subst(c)
    if st == "restart":
        return monitor_restart(c)
    if st == "retrycmd":
        return monitor_retrycmd(c)
    if st == "subwf":
        return monitor_subwf(c)
    if st == "cli":
        items = c["items"]
        classes = [item_class(it) for it in items]
        bad = sorted([x for x in classes if x], key=lambda x: 0 if x == "quoted-trailing-backslash" else 1)
        cls0 = {"class": (bad[0] if bad else "v0"), "stream": "cli"}
        if c.get("hang"):
            return ("`start -p` with the wrapped parameter string did not come back", cls0)
        r = seen_mismatch(c, items, "")
        if r:
            return ("start -p \"%s\": %s" % (c["s"], r), cls0)
        return None
    if st in ("doc", "env", "loop"):
        items = c["items"]
        classes = [item_class(it) for it in items]
        bad = [x for x in classes if x]
        # a dangling escape swallows what follows it, whatever that is: it takes precedence
        bad.sort(key=lambda x: 0 if x == "quoted-trailing-backslash" else 1)
        cls0 = {"class": bad[0] if bad else "v0", "stream": "params"}
        if c.get("err"):
            return ("loading the documented parameter string failed: %s" % c["err"], cls0)
        exp = [stringify(it) for it in items]
        if c["params"] != exp:
            return ("documented items do not yield their values: expected %r, DAG.Params = %r" % (exp, c["params"]), cls0)
        if st in ("env", "loop"):
            if c.get("hang") or c.get("status") != "finished":
                return ("the run that observes the parameters did not finish (status %r)" % c.get("status"), cls0)
            r = seen_mismatch(c, items, "")
            if r:
                return (r, cls0)
        if st == "loop":
            cls1 = {"class": roundtrip_class(items), "stream": "params"}
            if c.get("params2") != c["params"]:
                return ("record -> re-parse changes the parameters: first run %r, recorded %r, re-used as %r"
                        % (c["params"], c.get("recorded"), c.get("params2")), cls1)
            r = seen_mismatch(c, items, "re-") or exported_mismatch(c, items)
            if r:
                return ("after record -> re-parse: " + r, cls1)
        return None
    if st == "out":
        ob = out_bytes(c)
        # stderr bytes end up in the capture (F11d) unless the producer has a stderr: file
        has_err = bool(c.get("err_b64")) and not (c.get("prod_files", 0) & 2)
        if c.get("hang"):
            return ("a step with `output:` that prints %d bytes never finishes" % len(ob), {"class": "output-hang", "stream": "out"})
        if c.get("err"):
            return ("output run failed: %s" % c["err"], {"class": "output-run", "stream": "out"})
        exp = go_trim(ob)      # of the LAST attempt of the producer (out0_b64: what its failed first attempt printed)
        # what is recorded for handlers and a later retry: exactly one entry, OUT -> OUT=TrimSpace(stdout)
        if is_utf8(ob) and c.get("entries_b64") is not None and not has_err:
            ent = {k: base64.b64decode(v) for k, v in c["entries_b64"].items()}
            if ent != {"OUT": b"OUT=" + exp}:
                return ("the recorded output map is %r, expected one entry OUT -> OUT=TrimSpace(stdout)" % {k: _short(v) for k, v in ent.items()},
                        {"class": "output-record", "stream": "out"})
        for name in ("d1", "d1arg", "d2", "handler", "retry", "retryarg"):
            p = (c.get("probes") or {}).get(name)
            if p is None:
                if len(exp) > EXEC_STR:
                    return ("after capturing %d bytes consumer %s cannot be started (execve: argument list too long)" % (len(exp), name),
                            {"class": "output-exceeds-exec-string", "stream": "out"})
                return ("consumer %s did not run" % name, {"class": "output-consumer-missing", "stream": "out"})
            if name in ("d1arg", "retryarg"):
                got = unb64(p["args"][0]) if p.get("args") else None
            else:
                got = unb64((p.get("env") or {}).get("OUT"))
            if name in ("retry", "retryarg") and not is_utf8(ob):
                continue  # the status file is JSON: invalid UTF-8 cannot be recorded (DESIGN Appendix B) - not judged
            if got != exp:
                cl = "output-value"
                if has_err and got == go_trim(ob + base64.b64decode(c["err_b64"])):
                    cl = "output-captures-stderr"
                return ("consumer %s sees %r, TrimSpace(stdout) = %r" % (name, _short(got), _short(exp)), {"class": cl, "stream": "out"})
        return None
    return None


EXEC_STR = 131067    # longest value execve takes in OUT=value (MAX_ARG_STRLEN 131072 incl. name, = and NUL)
VAR1, VAR2 = "alpha", "beta"


def subst(v, val):
    return v.replace("${C11VAR}", val).replace("$C11VAR", val)


def monitor_subst(c):
    """The run sees the parameters with $C11VAR = alpha; what is recorded must hold those values: a retry / restart
    in a process where the variable is beta has to come out with the same parameters."""
    items = [dict(it, value=subst(it["value"], VAR1)) for it in c["items"]]
    classes = [item_class(it) for it in c["items"]]
    bad = [x for x in classes if x]
    cls0 = {"class": bad[0] if bad else "v0", "stream": "subst"}
    if c.get("err") and not c["err"].startswith("reload"):
        return ("loading failed: %s" % c["err"], cls0)
    exp = [stringify(it) for it in items]
    if c["params"] != exp:
        return ("parameters with $C11VAR=alpha: expected %r, DAG.Params = %r" % (exp, c["params"]), cls0)
    r = seen_mismatch(c, items, "")
    if r:
        return (r, cls0)
    rcl = roundtrip_class(items)
    cls1 = {"class": "recorded-values" if rcl == "v1" else rcl, "stream": "subst" if rcl == "v1" else "params"}
    if c.get("err"):
        return ("re-load of the recorded string failed: %s" % c["err"], cls1)
    if c.get("params2") != c["params"]:
        return ("the recorded parameters %r are re-used as %r in a process where $C11VAR=beta; the run saw %r"
                % (c.get("recorded"), c.get("params2"), c["params"]), cls1)
    r = seen_mismatch(c, items, "re-") or exported_mismatch(c, items)
    if r:
        return ("after record -> re-load with $C11VAR=beta: " + r, cls1)
    return None


def monitor_restart(c):
    """`start -p` (with $C11VAR=alpha) on a DAG that keeps running, then `restart` in a process where $C11VAR=beta: the
    restarted run must see exactly the parameter values of the run it repeats."""
    items = [dict(it, value=subst(it["value"], VAR1)) for it in c["items"]]
    bad = sorted([x for x in (item_class(it) for it in c["items"]) if x], key=lambda x: 0 if x == "quoted-trailing-backslash" else 1)
    cls0 = {"class": bad[0] if bad else "v0", "stream": "restart"}
    if c.get("hang"):
        return ("start / restart did not come back", cls0)
    r = seen_mismatch(c, items, "", whos=("env",))
    if r:
        return ("first run (start -p): " + r, cls0)
    rcl = roundtrip_class(items)
    cls1 = {"class": "restart-values" if rcl == "v1" else rcl, "stream": "restart" if rcl == "v1" else "params"}
    r = seen_mismatch(c, items, "re-", whos=("env",)) or exported_mismatch(c, items)
    if r:
        return ("the restarted run does not see the parameters of the run it repeats: " + r, cls1)
    return None


def monitor_subwf(c):
    """A DAG started with parameters runs a `run:` sub-workflow step whose child declares defaults at the same positions
    and names: the values given at start reach every later consumer (next step, its command line, the exit handler)
    unchanged, and nothing else appears under $1..$n / the names."""
    items = c["items"]
    bad = sorted([x for x in (item_class(it) for it in items) if x], key=lambda x: 0 if x == "quoted-trailing-backslash" else 1)
    cls = {"class": bad[0] if bad else "v0", "stream": "subwf"}
    if c.get("hang"):
        return ("the run with a sub-workflow step did not come back", cls)
    r = seen_mismatch(c, items, "", whos=("first",), with_args=False)
    if r:
        return ("before the sub-workflow step: " + r, cls)
    if c.get("status") != "child-ran":
        return ("the sub-workflow did not run", cls)
    r = seen_mismatch(c, items, "", whos=("env", "handler"))
    if r:
        return ("after the sub-workflow step (child defaults at the same positions / names): " + r, cls)
    pr = c["probes"]
    for who in ("env", "handler"):
        for k, v in pr["first"]["env"].items():
            if pr[who]["env"].get(k) != v:
                return ("after the sub-workflow step %s sees $%s = %r, before the call it was %r"
                        % (who, k, unb64(pr[who]["env"].get(k)), unb64(v)), cls)
    return None


def monitor_retrycmd(c):
    """`start -p` (with $C11VAR=alpha) on a DAG whose second step fails once, then the real `retry --req <id>` in a process
    where $C11VAR=beta: the retried steps must see exactly the parameter values of the run they repeat."""
    items = [dict(it, value=subst(it["value"], VAR1)) for it in c["items"]]
    bad = sorted([x for x in (item_class(it) for it in c["items"]) if x], key=lambda x: 0 if x == "quoted-trailing-backslash" else 1)
    cls0 = {"class": bad[0] if bad else "v0", "stream": "retrycmd"}
    if c.get("hang") or c.get("err"):
        return ("start / retry did not work: %s" % (c.get("err") or "watchdog"), cls0)
    r = seen_mismatch(c, items, "", whos=("first",), with_args=False)
    if r:
        return ("first run (start -p): " + r, cls0)
    rcl = roundtrip_class(items)
    cls1 = {"class": "retry-values" if rcl == "v1" else rcl, "stream": "retrycmd" if rcl == "v1" else "params"}
    r = seen_mismatch(c, items, "re-", whos=("env",))
    if r:
        return ("the retried steps do not see the parameters of the run they repeat (recorded %r): %s" % (c.get("recorded"), r), cls1)
    if c.get("envdiff"):
        # env: RUNDIR: dir-${C11VAR} - the recorded run saw dir-alpha; the retry loads the file where it is dir-beta
        pr = c.get("probes") or {}
        v1 = unb64(((pr.get("first") or {}).get("env") or {}).get("RUNDIR"))
        v2 = unb64(((pr.get("re-env") or {}).get("env") or {}).get("RUNDIR"))
        if v1 != b"dir-alpha" or v2 != v1:
            return ("an env: entry whose value differs when the retry loads the DAG file: the kept steps of the recorded run saw RUNDIR = %r, "
                    "the re-executed step sees %r (in its process environment)" % (v1, v2), cls1)
    return None


def _short(x):
    if x is None:
        return None
    return x if len(x) <= 80 else x[:40] + b"...(%d bytes)..." % len(x) + x[-20:]


def seen_mismatch(c, items, prefix, whos=("env", "handler"), with_args=True):
    """What the children saw against the given values ($i for positional items, $NAME for named ones)."""
    pr = c.get("probes") or {}
    last_named = {}
    for i, it in enumerate(items):
        if it.get("name"):
            last_named[it["name"]] = it["value"]
    for who in whos:
        p = pr.get(prefix + who)
        if p is None or p.get("env") is None:
            return "child %s%s left no probe" % (prefix, who)
        env = p["env"]
        for i, it in enumerate(items):
            if not it.get("name"):
                got = unb64(env.get(str(i + 1)))
                if got != b(it["value"]):
                    return "%s%s: $%d = %r, given %r" % (prefix, who, i + 1, got, it["value"])
        for n, v in last_named.items():
            got = unb64(env.get(n))
            if got != b(v):
                return "%s%s: $%s = %r, given %r" % (prefix, who, n, got, v)
    if not with_args:
        return None
    p = pr.get(prefix + "arg")
    if p is None or p.get("args") is None:
        return "child %sarg left no probe" % prefix
    args = [unb64(a) for a in p["args"]]
    npos = min(len(items) + 2, 9)
    for i, it in enumerate(items):
        if not it.get("name") and i < 9:
            if i >= len(args) or args[i] != b(it["value"]):
                return "%sarg: argument $%d = %r, given %r" % (prefix, i + 1, args[i] if i < len(args) else None, it["value"])
    names = []
    for it in items:
        if it.get("name") and it["name"] not in names:
            names.append(it["name"])
    for j, n in enumerate(names):
        k = npos + j
        if k >= len(args) or args[k] != b(last_named[n]):
            return "%sarg: argument $%s = %r, given %r" % (prefix, n, args[k] if k < len(args) else None, last_named[n])
    return None


# ---- model side -----------------------------------------------------------------------------------------------
HEADER = ("From Coq Require Import List String Ascii.\nImport ListNotations.\nOpen Scope string_scope.\n"
          "From BD.Params Require Import Model Check.\n")


def coq_items(items):
    return clist(["(%d, %s, %s)" % (KINDS[it["kind"]], cstring(it.get("name", "")), cstring(it["value"])) for it in items])


def model_check(ctx, cases):
    """Returns list of (case, what) correspondence mismatches."""
    bad = []
    # 1. tokenizer / stringify: every parameter string that went through a real load
    pc = []
    for c in cases:
        if c["stream"] in ("parse", "doc", "env", "loop") and not c.get("err"):
            pc.append((c, c["s"], c["params"]))
            if c["stream"] == "loop" and c.get("params2") is not None and not c.get("err"):
                pc.append((c, c["recorded"], c["params2"]))
    shards = pl.shard(pc, 1500)

    def ev(t):
        idx, sh = t
        terms = ["(%s, %s)" % (cstring(s), clist([cstring(x) for x in ps])) for _, s, ps in sh]
        res, err = pl.coq_sections(ctx, "c11_parse_%d" % idx, HEADER, [("MP", "string * list string", "parse_mismatches", terms)])
        return res, err
    for sh, (res, err) in zip(shards, pl.run_parallel(ev, list(enumerate(shards)))):
        if res is None or res.get("MP") is None:
            ctx.fail("correspondence", "the model could not be evaluated on a shard of parse cases (coqc failed)", {"log": err})
            continue
        for k in res["MP"]:
            c, s, ps = sh[k]
            bad.append((c, "model tokenizer and implementation disagree on %r: implementation %r" % (s, ps)))
    # 2. doc_render, V0, record, V1, TrimSpace, output entry
    dc = [c for c in cases if c["stream"] in ("doc", "env", "loop")]
    rc = [c for c in cases if c["stream"] in ("env", "loop", "subst") and not c.get("err") and not c.get("hang")]
    lc = [c for c in cases if c["stream"] == "loop"]
    tc = [c for c in cases if c["stream"] == "out" and c.get("gen") != "size" and c.get("go_trim_b64") is not None]
    oc = []
    for c in cases:
        if c["stream"] == "out" and c.get("gen") != "size" and not c.get("hang") and not c.get("err") and not c.get("err_b64"):
            p = (c.get("probes") or {}).get("d1")
            if p and p.get("env") and p["env"].get("OUT") is not None:
                oc.append((c, base64.b64decode(p["env"]["OUT"])))
    def secs_for(dcs, rcs, lcs, tcs, ocs):
        return [
            ("MD", "list (nat * string * string) * string * bool", "doc_mismatches",
             ["(%s, %s, %s)" % (coq_items(c["items"]), cstring(c["s"]), vlib.cbool(all(item_class(it) is None for it in c["items"]))) for c in dcs]),
            ("MR", "list string * string", "record_mismatches",
             ["(%s, %s)" % (clist([cstring(x) for x in c["params"]]), cstring(c.get("recorded", ""))) for c in rcs]),
            ("MV", "list (string * string) * bool", "v1_mismatches",
             ["(%s, %s)" % (clist(["(%s, %s)" % (cstring(it.get("name", "")), cstring(it["value"])) for it in c["items"]]),
                            vlib.cbool(all(v1_pair(b(it.get("name", "")), b(it["value"])) for it in c["items"]))) for c in lcs]),
            ("MT", "string * string", "trim_mismatches",
             ["(%s, %s)" % (cstring(out_bytes(c)), cstring(base64.b64decode(c["go_trim_b64"]))) for c in tcs]),
            ("MO", "string * string * string", "out_mismatches",
             ["(%s, %s, %s)" % (cstring("OUT"), cstring(out_bytes(c)), cstring(seen)) for c, seen in ocs]),
        ]
    # shards of the five lists (the thorough tier has tens of thousands of doc cases)
    N = 2500
    nsh = max(1, max((len(x) + N - 1) // N for x in (dc, rc, lc, tc, oc)))
    parts = [(dc[i::nsh], rc[i::nsh], lc[i::nsh], tc[i::nsh], oc[i::nsh]) for i in range(nsh)]

    def ev2(t):
        idx, pt = t
        return pl.coq_sections(ctx, "c11_rest_%d" % idx, HEADER, secs_for(*pt))
    for pt, (res, err) in zip(parts, pl.run_parallel(ev2, list(enumerate(parts)))):
        dcs, rcs, lcs, tcs, ocs = pt
        if res is None or any(res.get(k) is None for k in ("MD", "MR", "MV", "MT", "MO")):
            ctx.fail("correspondence", "the model could not be evaluated on the doc/record/trim cases (coqc failed)", {"log": err})
            continue
        for k in res["MD"]:
            bad.append((dcs[k], "doc_render / V0 of the model differ from the driver's rendering / the check's class"))
        for k in res["MR"]:
            bad.append((rcs[k], "model `record` (join of stringified parameters) differs from Status.Params %r" % rcs[k].get("recorded")))
        for k in res["MV"]:
            bad.append((lcs[k], "V1 of the model differs from the check's class"))
        for k in res["MT"]:
            bad.append((tcs[k], "model trim_space differs from strings.TrimSpace on %r" % out_bytes(tcs[k])))
        for k in res["MO"]:
            bad.append((ocs[k][0], "model output entry (NAME=TrimSpace(stdout), value part) differs from what the consumer saw"))
    ctx.cov["model_evaluations"] = {"parse": len(pc), "doc_render+V0": len(dc), "record": len(rc), "V1": len(lc), "trim": len(tc), "output": len(oc)}
    return bad


# ---- shrinking ------------------------------------------------------------------------------------------------
def candidates(c):
    out = []
    base = {k: c[k] for k in ("stream", "gen", "envdiff") if k in c}
    if c["stream"] == "parse":
        s = c["s"]
        for i in range(len(s)):
            out.append(dict(base, s=s[:i] + s[i + 1:]))
    elif c["stream"] in ("doc", "env", "loop", "subst", "cli", "restart", "retrycmd", "subwf"):
        its = c["items"]
        for i in range(len(its)):
            if len(its) > 1:
                out.append(dict(base, s="", items=its[:i] + its[i + 1:]))
            v = its[i]["value"]
            for j in range(len(v)):
                it = dict(its[i], value=v[:j] + v[j + 1:])
                out.append(dict(base, s="", items=its[:i] + [it] + its[i + 1:]))
    elif c["stream"] == "out" and c.get("gen") != "size":
        ob = base64.b64decode(c.get("out_b64", "") or "")
        for i in range(len(ob)):
            out.append(dict(base, s="", out_b64=base64.b64encode(ob[:i] + ob[i + 1:]).decode(), err_b64=c.get("err_b64", ""),
                            out0_b64=c.get("out0_b64", ""), collide=c.get("collide", ""), prod_files=c.get("prod_files", 0)))
        if c.get("err_b64"):
            out.append(dict(base, s="", out_b64=c.get("out_b64", ""), err_b64="", out0_b64=c.get("out0_b64", ""), collide=c.get("collide", ""),
                            prod_files=c.get("prod_files", 0)))
        if c.get("prod_files") or c.get("out0_b64"):
            out.append(dict(base, s="", out_b64=c.get("out_b64", ""), err_b64=c.get("err_b64", ""), collide=c.get("collide", "")))
    return out[:60]


def shrink(tool, ctx, c, cls):
    def still(x):
        m = monitor(x)
        return m is not None and m[1].get("class") == cls.get("class")
    try:
        return pl.greedy_shrink(tool, ctx, c, candidates, still, rounds=25)
    except Exception:
        return c


def slim(c):
    d = {k: v for k, v in c.items() if k not in ("ms",)}
    if len(d.get("out_b64", "") or "") > 400:
        d["out_b64"] = d["out_b64"][:400] + "..."
    return d


# ---- the check ------------------------------------------------------------------------------------------------
def nontrivial(c):
    if c["stream"] == "parse":
        return any(ch in c["s"] for ch in '"=` \\')
    if c["stream"] in ("doc", "env", "loop", "subst", "cli", "restart", "retrycmd", "subwf"):
        return any(it["kind"] != "w" or "=" in it["value"] for it in c["items"])
    return len(out_bytes(c)) > 0


def key(c):
    if c["stream"] == "parse":
        return ("p", c["s"])
    if c["stream"] in ("doc", "env", "loop", "subst", "cli", "restart", "retrycmd", "subwf"):
        return (c["stream"], json.dumps(c["items"], sort_keys=True))
    return ("o", c.get("gen"), c.get("size"), c.get("out_b64"), c.get("err_b64"), c.get("out0_b64"), c.get("collide"), c.get("prod_files"))


def judge(ctx, tool, cases, do_shrink=True):
    nfail = 0
    for c in cases:
        m = monitor(c)
        if m is None:
            continue
        what, cls = m
        if ctx.match_known(cls, "monitor") is None and do_shrink and nfail < 3:
            c = shrink(tool, ctx, c, cls)
            m2 = monitor(c)
            if m2:
                what, cls = m2
        nfail += 1
        ctx.fail("monitor", what, slim(c), cls=cls)
    return nfail


def run(ctx, replay_cases=None):
    ctx.proofs(extra=["Params/Check.vo"])
    tool, out, _ = vlib.go_build("params", ctx.scratch)
    if tool is None:
        ctx.fail("correspondence", "harness does not build against /repo", {"log": out[-2000:]})
        return ctx.finish()
    corpus = os.path.join(vlib.VERIF, "corpus", "C11.jsonl")
    cases = []
    if replay_cases is None:
        if os.path.exists(corpus):
            cases += pl.replay_cases(tool, ctx, vlib.read_jsonl(corpus), tag="corpus")
        p = os.path.join(ctx.scratch, "params.jsonl")
        rc, out, dt = vlib.run_tool(tool, [p, ctx.tier], env_extra={"VERIF_SEED": str(ctx.seed)}, timeout=3000)
        if rc != 0:
            ctx.fail("correspondence", "params driver failed", {"log": out[-2000:]})
            return ctx.finish()
        cases += vlib.read_jsonl(p)
        ctx.cov["driver_s"] = round(dt, 1)
    else:
        cases = replay_cases
    # YAML transport problems are the harness's, not the property's
    cases = [c for c in cases if not (c.get("err") or "").startswith("yaml-transport")]
    judge(ctx, tool, cases)
    for c, what in model_check(ctx, cases):
        ctx.fail("correspondence", what, slim(c), cls={"class": "correspondence"})
    streams, classes = {}, {}
    seen = set()
    for c in cases:
        streams[c["stream"]] = streams.get(c["stream"], 0) + 1
        if nontrivial(c):
            seen.add(key(c))
        if c["stream"] in ("doc", "env", "loop"):
            cl = [item_class(it) for it in c["items"]]
            k = next((x for x in cl if x), "V0")
            classes[k] = classes.get(k, 0) + 1
    ctx.cov["evaluations"] = len(cases)
    ctx.cov["traces_validated_against_impl"] = sum(1 for c in cases if c["stream"] in ("env", "loop", "out", "subst", "cli", "restart", "retrycmd", "subwf"))
    ctx.cov["distinct_nontrivial"] = len(seen)
    ctx.cov["rule"] = ("distinct = distinct input (parameter string / item list / output bytes); non-trivial = a parameter string "
                       "containing a quote, =, back-tick, backslash or space; an item list with a quoted or named item; a non-empty output")
    ctx.cov["streams"] = streams
    ctx.cov["item_lists_by_class"] = classes
    # how tight V0 is: item lists outside V0 that the implementation nevertheless parses to their values (context
    # dependent: a trailing backslash in the LAST quoted item, no quote after it)
    ctx.cov["outside_V0_yet_correct"] = sum(
        1 for c in cases if c["stream"] == "doc" and not c.get("err")
        and any(item_class(it) for it in c["items"]) and c["params"] == [stringify(it) for it in c["items"]])
    ctx.cov["outputs"] = {"sizes": sorted({len(out_bytes(c)) for c in cases if c["stream"] == "out" and c.get("gen") == "size"}),
                          "with_stderr": sum(1 for c in cases if c["stream"] == "out" and c.get("err_b64")),
                          "name_collides_with_param_or_env": sum(1 for c in cases if c["stream"] == "out" and c.get("collide")),
                          "producer_with_stdout_or_stderr_file": sum(1 for c in cases if c["stream"] == "out" and c.get("prod_files")),
                          "producer_retried": sum(1 for c in cases if c["stream"] == "out" and c.get("out0_b64")),
                          "hung": sum(1 for c in cases if c["stream"] == "out" and c.get("hang"))}
    for st in ("doc", "loop", "out"):
        for c in [x for x in cases if x["stream"] == st][5:6]:
            ctx.sample(slim(c))
    ctx.cov["trusted_base"] += [
        "re-implemented library semantics: leftmost-first matching of the parameter regexp (RE2), strings.Trim, ReplaceAll, Join, strings.TrimSpace incl. unicode.IsSpace",
        "eval-time substitution ($VAR expansion, back-tick commands) is outside the model: env/loop cases avoid $ and back-tick",
        "the process environment (execve, os.Setenv, exec.Cmd env de-duplication) is observed through real children, not modelled",
    ]
    ctx.assumptions = ["C11_parse_doc_partial: items in V0 (decidable: quoted text is arbitrary except a final backslash; words / names as documented)",
                       "C11_roundtrip_partial: parsed pairs in V1 (nothing that must be quoted ends in a backslash; no positional value of the shape NAME=value)",
                       "C11_output: no other producer of the same variable name between producer and consumer"]
    if ctx.tier == "thorough":
        ctx.coqchk()

    def search():
        p2 = os.path.join(ctx.scratch, "params-search.jsonl")
        rc2, _, _ = vlib.run_tool(tool, [p2, "quick"], env_extra={"VERIF_SEED": str(ctx.seed + 7919)}, timeout=1500)
        if rc2 != 0:
            return None
        for c in vlib.read_jsonl(p2):
            m = monitor(c)
            if m and ctx.match_known(m[1], "monitor") is None:
                return {"case": slim(c), "what": m[0]}
        return None
    return ctx.finish(search=search)


def replay(ctx, path):
    body = json.load(open(path))
    cases = [f["case"] for f in body.get("failures", []) if isinstance(f.get("case"), dict) and "stream" in f["case"]]
    fi = body.get("failing_input")
    if isinstance(fi, dict):
        cases.append(fi.get("case", fi) if "stream" in fi.get("case", fi) else fi)
    if "case" in body and isinstance(body["case"], dict) and "stream" in body["case"]:
        cases.append(body["case"])
    cases = [c for c in cases if isinstance(c, dict) and "stream" in c and not str(c.get("out_b64", "")).endswith("...")]
    tool, out, _ = vlib.go_build("params", ctx.scratch)
    if tool is None:
        ctx.fail("correspondence", "harness does not build against /repo", {"log": out[-2000:]})
        return ctx.finish()
    return run(ctx, replay_cases=pl.replay_cases(tool, ctx, cases, tag="replay"))
