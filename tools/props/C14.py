"""C14 - only well-formed dependency graphs are admitted to execution (DESIGN.md section 5, C14)."""
import json
import os
from concurrent.futures import ThreadPoolExecutor

import vlib
from vlib import cstring, clist
from props import agent_lib

SHARD = 4000


def coq_case(c):
    steps = clist(["mk %s %s" % (cstring(n), clist([cstring(d) for d in ds])) for n, ds in zip(c["names"], c["deps"])])
    return "(%s, %d)" % (steps, c["verdict"])


def eval_shard(ctx, idx, cases):
    txt = ("From Coq Require Import List String Ascii.\nImport ListNotations.\nOpen Scope string_scope.\n"
           "From BD.Graph Require Import Kahn Accept AcceptCheck.\n"
           "Definition cases : list (list gstep * nat) := [\n%s\n].\n"
           "Definition M := Eval vm_compute in mismatches cases.\nPrint M.\n") % ";\n".join(coq_case(c) for c in cases)
    rc, out, dt = vlib.coq_eval(ctx.scratch, "cases_c14_%d" % idx, txt)
    if rc != 0:
        return None, out[-1500:]
    return vlib.coq_list_result(out, "M"), None


def model_check(ctx, cases):
    """Evaluates the Coq model on the cases; returns list of (case, model verdict) that differ."""
    shards = [cases[i:i + SHARD] for i in range(0, len(cases), SHARD)]
    bad = []
    with ThreadPoolExecutor(max_workers=14) as ex:
        results = list(ex.map(lambda t: eval_shard(ctx, t[0], t[1]), enumerate(shards)))
    for sh, (res, err) in zip(shards, results):
        if res is None:
            ctx.fail("correspondence", "the model could not be evaluated on a shard of cases (coqc failed)", {"log": err})
            continue
        for (k, m) in res:
            bad.append((sh[k], m))
    return bad


def eval_block(ctx, idx, b):
    txt = ("From Coq Require Import List String NArith.\nImport ListNotations.\n"
           "From BD.Graph Require Import Kahn Accept AcceptCheck.\n"
           "Definition obs : list nat := [%s].\n"
           "Definition M := Eval vm_compute in sweep_from %d %s %d%%N obs.\nPrint M.\n") % (
               "; ".join(b["verdicts"]), b["n"], "true" if b["loops"] else "false", b["start"])
    rc, out, dt = vlib.coq_eval(ctx.scratch, "block_c14_%d" % idx, txt)
    if rc != 0:
        return None, out[-1500:]
    return vlib.coq_list_result(out, "M"), None


def mask_case(b, m):
    """The graph of edge mask m, as the driver's fromMask builds it."""
    n, loops = b["n"], b["loops"]
    names = ["s%d" % i for i in range(n)]
    deps = [[] for _ in range(n)]
    bit = 0
    for i in range(n):
        for j in range(n):
            if i == j and not loops:
                continue
            if (m >> bit) & 1:
                deps[i].append("s%d" % j)
            bit += 1
    return {"stream": b["stream"], "k": m, "names": names, "deps": deps}


def nontrivial_key(c):
    return (tuple(c["names"]), tuple(tuple(d) for d in c["deps"]))


def spec_verdict(c):
    """The property itself, evaluated independently (names resolve /\\ acyclic), as the monitor."""
    return c["dfs"]


def agent_clause(ctx, seed=None):
    """Agent-level clause: refused graphs (cycle / self-dependency / missing name) through the real agent.Run in process
    (harness/cmd/agentrun); monitor "refused run: no executor event, no handler, empty history, no socket activity", and
    the observation against Agent/Run.v (C14_refused_is_silent).  A few accepted graphs run as control."""
    if seed is not None:
        ctx.seed, keep = seed, ctx.seed
    acases = agent_lib.run_cases(ctx, ["refused", "normal"])
    if seed is not None:
        ctx.seed = keep
    if acases is None:
        return
    for c in acases:
        why = agent_lib.monitor(c)
        if why:
            ctx.fail("monitor", why, c, cls={"class": "agent-" + c["class"], "sub": c["sub"]})
    agent_lib.check_model(ctx, acases, tag="c14_agent")
    ctx.cov["agent_runs"] = agent_lib.summary(acases)
    ctx.cov["agent_runs_refused_silent"] = len([c for c in acases if c["class"] == "refused" and not c["log"] and not c["hist_files"]])
    ctx.cov["traces_validated_against_impl_agent"] = len(acases)


def run(ctx, replay_cases=None, agent_seed=None):
    ctx.proofs(extra=["Graph/AcceptCheck.vo"] + agent_lib.EXTRA_VO)
    tool, out, _ = vlib.go_build("graph", ctx.scratch)
    if tool is None:
        ctx.fail("correspondence", "harness does not build against /repo", {"log": out[-2000:]})
        return ctx.finish()
    if replay_cases is None:
        p = os.path.join(ctx.scratch, "graph.jsonl")
        rc, out, dt = vlib.run_tool(tool, [p, ctx.tier], env_extra={"VERIF_SEED": str(ctx.seed)}, timeout=3000)
        if rc != 0:
            ctx.fail("correspondence", "graph driver failed", {"log": out[-2000:]})
            return ctx.finish()
        cases = vlib.read_jsonl(p)
    else:
        cases = replay_cases
    blocks = [c for c in cases if c.get("compact")]
    cases = [c for c in cases if not c.get("compact")]
    nblock = 0
    if blocks:
        with ThreadPoolExecutor(max_workers=14) as ex:
            bres = list(ex.map(lambda t: eval_block(ctx, t[0], t[1]), enumerate(blocks)))
        for b, (res, err) in zip(blocks, bres):
            nblock += len(b["verdicts"])
            if res is None:
                ctx.fail("correspondence", "the model could not be evaluated on a block of graphs (coqc failed)", {"log": err})
                continue
            for (m, mv) in res:
                c = mask_case(b, m)
                c["verdict"] = int(b["verdicts"][m - b["start"]])
                ctx.fail("correspondence", "model verdict %d differs from implementation verdict %d" % (mv, c["verdict"]), c)
            for off, (v, d) in enumerate(zip(b["verdicts"], b["dfs"])):
                if v == "3" or (v == "0") != (d == "0"):
                    c = mask_case(b, b["start"] + off)
                    c["verdict"], c["dfs"] = int(v), int(d)
                    ctx.fail("monitor", "admission verdict of the implementation contradicts the property: impl=%s, "
                             "independent (names resolve and acyclic)=%s [0 ok, 1 missing, 2 cycle]" % (v, d), shrink(tool, ctx, c))
    streams = {}
    seen = set()
    for c in cases:
        streams[c["stream"]] = streams.get(c["stream"], 0) + 1
        if sum(len(d) for d in c["deps"]) > 0:
            seen.add(nontrivial_key(c))
        # monitor: the implementation's verdict against the property (admitted iff resolves and acyclic)
        if c["verdict"] == 3:
            ctx.fail("monitor", "NewExecutionGraph failed with an unexpected error", c)
        elif (c["verdict"] == 0) != (spec_verdict(c) == 0):
            ctx.fail("monitor", "admission verdict of the implementation contradicts the property: impl=%d, "
                     "independent (names resolve and acyclic)=%d [0 ok, 1 missing, 2 cycle]" % (c["verdict"], c["dfs"]),
                     shrink(tool, ctx, c))
    bad = model_check(ctx, cases)
    for c, m in bad:
        ctx.fail("correspondence", "model verdict %d differs from implementation verdict %d" % (m, c["verdict"]), c)
    agent_clause(ctx, agent_seed)
    verd = {}
    for c in cases:
        verd[c["verdict"]] = verd.get(c["verdict"], 0) + 1
    ctx.cov["evaluations"] = len(cases) + nblock
    ctx.cov["traces_validated_against_impl"] = len(cases) + nblock
    # every graph of an exhaustive block is distinct; all but the edgeless one are non-trivial
    ctx.cov["distinct_nontrivial"] = len(seen) + max(0, nblock - len({b["stream"] for b in blocks}))
    ctx.cov["exhaustive_blocks"] = {st: sum(len(b["verdicts"]) for b in blocks if b["stream"] == st) for st in {b["stream"] for b in blocks}}
    ctx.cov["rule"] = ("graphs fed to the real scheduler.NewExecutionGraph and to the Coq `gaccept`: every digraph with "
                       "self-loops on <=3 nodes, n=4 (all 2^16 thorough / seeded sample quick), loop-free n=5 (all 2^20 "
                       "thorough / sample quick), random graphs on <=40 nodes (forward DAGs, duplicated entries, back "
                       "edges, dangling names incl. near-miss names); distinct = distinct (names, depends lists), "
                       "non-trivial = at least one depends entry")
    ctx.cov["streams"] = streams
    ctx.cov["impl_verdicts"] = {"admitted": verd.get(0, 0), "missing": verd.get(1, 0), "cycle": verd.get(2, 0), "other": verd.get(3, 0)}
    ctx.cov["exhaustive"] = ctx.tier == "thorough"
    for c in cases[70:72] + cases[-2:]:
        ctx.sample({k: c[k] for k in ("stream", "names", "deps", "verdict")})
    ctx.assumptions = ["step names pairwise distinct (the property's premise; findStep iterates a Go map otherwise)",
                       "agent-level clause (refused run records nothing) is checked by the agent driver cases of this check"]
    if ctx.tier == "thorough":
        ctx.coqchk()
    return ctx.finish()


def reeval(tool, ctx, cases):
    p_in = os.path.join(ctx.scratch, "shr-in.jsonl")
    with open(p_in, "w") as f:
        for c in cases:
            f.write(json.dumps(c) + "\n")
    p = os.path.join(ctx.scratch, "shr-out.jsonl")
    rc, out, dt = vlib.run_tool(tool, [p, "replay", p_in])
    return vlib.read_jsonl(p) if rc == 0 else []


def shrink(tool, ctx, c):
    """Greedy: delete a step (and the entries naming it) or one depends entry while the implementation
    still contradicts the independent oracle."""
    def bad(x):
        return x["verdict"] == 3 or (x["verdict"] == 0) != (x["dfs"] == 0)
    cur = c
    for _ in range(200):
        cands = []
        n = len(cur["names"])
        for i in range(n):
            nm = cur["names"][i]
            cands.append({"stream": "shrunk", "k": 0, "names": cur["names"][:i] + cur["names"][i + 1:],
                          "deps": [[d for d in ds if d != nm] for j, ds in enumerate(cur["deps"]) if j != i]})
        for i in range(n):
            for j in range(len(cur["deps"][i])):
                deps = [list(d) for d in cur["deps"]]
                del deps[i][j]
                cands.append({"stream": "shrunk", "k": 0, "names": cur["names"], "deps": deps})
        res = [x for x in reeval(tool, ctx, cands) if bad(x)]
        if not res:
            break
        cur = min(res, key=lambda x: (len(x["names"]), sum(len(d) for d in x["deps"])))
    return cur


def replay(ctx, path):
    body = json.load(open(path))
    agent_seed = body.get("seed") if any(isinstance(f.get("case"), dict) and "log" in f["case"] for f in body.get("failures", [])) else None
    cases = [f["case"] for f in body.get("failures", []) if isinstance(f.get("case"), dict) and "names" in f["case"]]
    if "failing_input" in body and isinstance(body["failing_input"], dict):
        cases.append(body["failing_input"])
    # the verdicts are re-taken from the current tree
    tool, out, _ = vlib.go_build("graph", ctx.scratch)
    if tool is None:
        ctx.fail("correspondence", "harness does not build against /repo", {"log": out[-2000:]})
        return ctx.finish()
    p_in = os.path.join(ctx.scratch, "in.jsonl")
    with open(p_in, "w") as f:
        for c in cases:
            f.write(json.dumps(c) + "\n")
    p = os.path.join(ctx.scratch, "graph.jsonl")
    rc, out, dt = vlib.run_tool(tool, [p, "replay", p_in])
    if rc != 0:
        ctx.fail("correspondence", "graph driver failed", {"log": out[-2000:]})
        return ctx.finish()
    return run(ctx, replay_cases=vlib.read_jsonl(p), agent_seed=agent_seed)
