"""C03 (Sched family) - see tools/props/sched_lib.py and DESIGN.md section 5, C03."""
from props import sched_lib


def run(ctx):
    return sched_lib.run_family(ctx, "C03")


def replay(ctx, path):
    return sched_lib.replay_family(ctx, "C03", path)
