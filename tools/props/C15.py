"""C15 (Sched family) - see tools/props/sched_lib.py and DESIGN.md section 5, C15."""
from props import sched_lib


def run(ctx):
    return sched_lib.run_family(ctx, "C15")


def replay(ctx, path):
    return sched_lib.replay_family(ctx, "C15", path)
