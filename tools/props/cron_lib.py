"""Helpers of the C09 check: an independent cron matcher (python sets + datetime), the property monitor for
daemon histories, and the JSON -> Coq term printers.  Nothing here uses the Coq model.

The matcher is deliberately restricted to a *tame* grammar (numbers, names, ranges, steps, lists, `*`, `?`,
optional TZ=/CRON_TZ= prefix with a fixed-offset zone).  Expressions outside it are not judged by the
monitor (they are still compared model-vs-implementation)."""
import datetime
import re

from vlib import cstring, clist, cz

MONTHS = {n: i + 1 for i, n in enumerate("jan feb mar apr may jun jul aug sep oct nov dec".split())}
DOWS = {n: i for i, n in enumerate("sun mon tue wed thu fri sat".split())}
BOUNDS = [(0, 59, {}), (0, 23, {}), (1, 31, {}), (1, 12, MONTHS), (0, 6, DOWS)]
ZONES = {"": 0, "UTC": 0, "Local": 0, "Etc/UTC": 0, "Asia/Tokyo": 540, "Asia/Kolkata": 330,
         "Etc/GMT+5": -300, "Etc/GMT-3": 180, "America/Phoenix": -420}
EPOCH = datetime.datetime(1970, 1, 1)
ZERO_MINUTE = -1035593280  # time.Time{} in unix minutes

_ITEM = re.compile(r"^(\*|\?|([A-Za-z]{3}|\d{1,2})(-([A-Za-z]{3}|\d{1,2}))?)(/(\d{1,3}))?$")


def _val(tok, names):
    if tok.isdigit():
        return int(tok)
    return names.get(tok.lower())


def parse_field(text, lo, hi, names):
    """-> (set of values, star?) or None when the field is invalid or not tame."""
    vals, star = set(), False
    if text == "" or text.startswith(",") or text.endswith(",") or ",," in text:
        return None
    for it in text.split(","):
        m = _ITEM.match(it)
        if not m:
            return None
        step = int(m.group(6)) if m.group(6) is not None else 1
        if step == 0:
            return None
        if m.group(1) in ("*", "?"):
            a, b = lo, hi
            if step <= 1:
                star = True
        else:
            a = _val(m.group(2), names)
            if a is None:
                return None
            if m.group(4) is not None:
                b = _val(m.group(4), names)
                if b is None:
                    return None
            else:
                b = hi if m.group(6) is not None else a
        if a < lo or b > hi or a > b:
            return None
        vals.update(range(a, b + 1, step))
    return vals, star


def parse_expr(e):
    """-> dict(min, hour, dom, month, dow : sets; dom_star, dow_star; off) for a valid tame expression,
    'invalid' for a tame-shaped but invalid one, None when the expression is outside the tame grammar."""
    off = 0
    m = re.match(r"^(TZ|CRON_TZ)=(\S*) +(\S.*)$", e)
    if m:
        if m.group(2) not in ZONES:
            return None
        off = ZONES[m.group(2)]
        e = m.group(3)
    elif e.startswith("TZ=") or e.startswith("CRON_TZ="):
        return None
    if not re.match(r"^[A-Za-z0-9*?,/\- \t]*$", e):
        return None
    fs = e.split()
    if len(fs) != 5:
        return "invalid"
    out = []
    for f, (lo, hi, names) in zip(fs, BOUNDS):
        if not all(_ITEM.match(it) or it == "" for it in f.split(",")):
            return None
        r = parse_field(f, lo, hi, names)
        if r is None:
            # tame shape but out of bounds / inverted / unknown name / zero step: invalid; odd comma use: not judged
            if f == "" or f.startswith(",") or f.endswith(",") or ",," in f:
                return None
            return "invalid"
        out.append(r)
    return {"min": out[0][0], "hour": out[1][0], "dom": out[2][0], "month": out[3][0], "dow": out[4][0],
            "dom_star": out[2][1], "dow_star": out[4][1], "off": off}


def civil(m):
    return EPOCH + datetime.timedelta(minutes=m)


def day_ok(sp, dt):
    if dt.month not in sp["month"]:
        return False
    dom = dt.day in sp["dom"]
    dow = ((dt.weekday() + 1) % 7) in sp["dow"]
    return (dom and dow) if (sp["dom_star"] or sp["dow_star"]) else (dom or dow)


def matches(sp, m):
    """Does the schedule fire at unix minute m?"""
    try:
        dt = civil(m + sp["off"])
    except OverflowError:
        return None
    return day_ok(sp, dt) and dt.hour in sp["hour"] and dt.minute in sp["min"]


def next_after(sp, t):
    """First matching minute strictly after the instant t (unix seconds), searched up to the end of the year
    (year of t+1s) + 5 in the schedule's zone; None when there is none (the library's zero time)."""
    t1 = t + 1 + 60 * sp["off"]
    m0 = -((-t1) // 60)
    try:
        ylim = civil(t1 // 60).year + 5
        d = civil(m0)
    except OverflowError:
        return "skip"
    if ylim + 1 > 9990:
        return "skip"
    if not sp["hour"] or not sp["min"]:
        return None
    first = True
    day = datetime.datetime(d.year, d.month, d.day)
    while day.year <= ylim:
        if day_ok(sp, day):
            for h in sorted(sp["hour"]):
                for mi in sorted(sp["min"]):
                    cand = day.replace(hour=h, minute=mi)
                    if not first or cand >= d:
                        mm = (cand - EPOCH) // datetime.timedelta(minutes=1)
                        return mm - sp["off"]
        first = False
        day += datetime.timedelta(days=1)
    return None


# ---------------------------------------------------------------------------------------------
# schedule values (JSON tree of the harness)
# ---------------------------------------------------------------------------------------------

def val_kind(v):
    if v.get("o") in ("~", "null"):
        return "n"
    for k in ("s", "o", "l", "m"):
        if k in v:
            return k
    return "n"


def sched_exprs(v):
    """-> (starts, stops, restarts) expression lists for a structurally valid schedule value, 'invalid' otherwise
    (independent reading of the documented forms: string, list of strings, map with the keys start/stop/restart
    whose values are a string or a list of strings)."""
    k = val_kind(v)
    if k == "n":
        return [], [], []
    if k == "s":
        return [v["s"]], [], []
    if k == "l":
        if any(val_kind(x) != "s" for x in v["l"]):
            return "invalid"
        return [x["s"] for x in v["l"]], [], []
    if k == "m":
        res = {"start": [], "stop": [], "restart": []}
        for key, val in v["m"]:
            if val_kind(key) != "s" or key["s"] not in res:
                return "invalid"
            vk = val_kind(val)
            if vk == "s":
                xs = [val["s"]]
            elif vk == "l":
                if any(val_kind(x) != "s" for x in val["l"]):
                    return "invalid"
                xs = [x["s"] for x in val["l"]]
            else:
                xs = []
            res[key["s"]] += xs
        return res["start"], res["stop"], res["restart"]
    return "invalid"


def tz_no_space(e):
    return (e.startswith("TZ=") or e.startswith("CRON_TZ=")) and " " not in e


def judge_content(c):
    """-> dict(valid: bool|None, specs (parsed start/stop/restart specs)); valid None = not judged (an expression
    outside the tame grammar).  A zone prefix without a schedule and an unknown map key are plain invalid files
    (they used to crash the loader: F13a, F13b, repaired in /repo)."""
    if "g" in c and c["g"]:
        if c["g"] in ("empty", "nosched"):
            return {"valid": True, "specs": ([], [], []), "panic": None}
        return {"valid": False, "specs": None, "panic": None}
    r = sched_exprs(c["v"])
    if r == "invalid":
        return {"valid": False, "specs": None, "panic": None}
    specs = []
    for xs in r:
        if any(tz_no_space(e) for e in xs):
            return {"valid": False, "specs": None, "panic": None}
        ps = [parse_expr(e) for e in xs]
        if any(p == "invalid" for p in ps):
            return {"valid": False, "specs": None, "panic": None}
        if any(p is None for p in ps):
            return {"valid": None, "specs": None, "panic": None}
        specs.append(list(zip(xs, ps)))
    return {"valid": True, "specs": tuple(specs), "panic": None}


def is_dag_name(name):
    i = name.rfind(".")
    return i >= 0 and name[i:] in (".yaml", ".yml")


# ---------------------------------------------------------------------------------------------
# the property monitor for one daemon history
# ---------------------------------------------------------------------------------------------

def hist_state(h):
    """-> (error?, running?, last start minute or None)"""
    k = h["kind"]
    if k == "err":
        return (True, False, None)
    if k == "dash":
        return (False, False, ZERO_MINUTE)
    if k == "run":
        return (False, True, h["at"] // 60)
    if k in ("done", "donelegacy"):
        return (False, False, h["at"] // 60)
    return (False, False, None)


def expanded_ops(case):
    """[(index of the original op, op)]: a `boot` (the real Scheduler.Start at wall-clock instant w, stopped after its
    immediate first tick) is, for the property and for the model, a daemon restart followed by the tick of the minute
    the boot falls into, executed at w."""
    out = []
    for i, op in enumerate(case["ops"]):
        if op["op"] == "boot":
            out.append((i, {"op": "restart", "calls": [], "alive": op.get("alive", True), "synced": True}))
            out.append((i, {"op": "tick", "m": op["wall"] // 60, "wall": op["wall"], "calls": op.get("calls", []),
                            "alive": op.get("alive", True), "synced": True}))
        elif op["op"] == "loop":
            # the daemon's own loop (Scheduler.start) asked for n ticks: the property wants the boot minute m0 and then
            # m0+1, m0+2, ... each ticked once, not before its minute; the k-th tick observed is held against minute m0+k
            ticks = op.get("ticks") or []
            if op.get("real"):
                m0 = (ticks[0]["at"] // 60) if ticks and ticks[0].get("at") else None
            else:
                m0 = op["wall"] // 60
            out.append((i, {"op": "restart", "calls": [], "alive": op.get("alive", True), "synced": True}))
            if op.get("jump"):
                # the clock jumped while the boot tick was reading: the catch-up ticks m0 .. minute(wall + jump) arrive at
                # once; file d<j>.yaml is scheduled at minute m0+j only, so its calls belong to the tick of that minute
                import re as _re
                allc = [c for t in ticks for c in t["calls"]]
                for k in range(op.get("n", 0)):
                    mine = [c for c in allc if (_re.match(r"^d(\d+)\.", c[1]) and int(_re.match(r"^d(\d+)\.", c[1]).group(1)) == k)
                            or (k == 0 and not _re.match(r"^d(\d+)\.", c[1]))
                            or (k == op.get("n", 0) - 1 and _re.match(r"^d(\d+)\.", c[1]) and int(_re.match(r"^d(\d+)\.", c[1]).group(1)) >= op.get("n", 0))]
                    out.append((i, {"op": "tick", "m": m0 + k, "wall": op["wall"] + op["jump"], "calls": mine,
                                    "alive": op.get("alive", True), "synced": True}))
            elif m0 is not None:
                for k in range(op.get("n", 0)):
                    t = ticks[k] if k < len(ticks) else {"calls": [], "at": 0}
                    wall = t["at"] if (op.get("real") and t.get("at")) else (m0 + k) * 60 + 59
                    out.append((i, {"op": "tick", "m": m0 + k, "wall": wall, "calls": t["calls"],
                                    "alive": op.get("alive", True), "synced": True}))
        else:
            out.append((i, op))
    return out


def loop_timing(case):
    """Real-clock loops: the k-th tick must arrive in minute m0+k, within a few seconds of its beginning."""
    out = []
    for i, op in enumerate(case["ops"]):
        if op["op"] == "loop" and op.get("real"):
            ticks = op.get("ticks") or []
            if not ticks or not ticks[0].get("at"):
                out.append({"op": i, "file": "", "what": "the daemon did not run its boot tick", "cls": {"class": "loop-timing", "cause": "unexplained"}})
                continue
            m0 = ticks[0]["at"] // 60
            for k, t in enumerate(ticks):
                if k == 0:
                    continue
                late = t.get("at", 0) - (m0 + k) * 60
                if not t.get("at") or late < 0 or late > 6:
                    out.append({"op": i, "file": "", "what": "tick %d of the daemon's loop arrived %s s after the beginning of minute %d "
                                "(expected within 0..6 s)" % (k, late if t.get("at") else "never/not within 75", m0 + k),
                                "cls": {"class": "loop-timing", "cause": "unexplained"}})
    return out


def monitor_seq(case):
    """Evaluates the property on what the implementation did.  Returns a list of
    dict(op index, file, what, cls) - one per violated clause."""
    out = []
    dirc = {f["name"]: f["c"] for f in (case.get("files") or [])}
    hist = {}
    susp = set()
    up = False            # a daemon has been started
    panic_seen = None     # a live daemon met a file on which the loader panics (kind)
    started_minutes = {}  # (file, minute) -> number of starts issued so far
    rewritten = set()     # files whose latest start time was moved backwards by the environment

    def note_panic():
        nonlocal panic_seen
        for n, c in dirc.items():
            if is_dag_name(n):
                j = judge_content(c)
                if j["panic"]:
                    panic_seen = j["panic"]

    for i, op in expanded_ops(case):
        o = op["op"]
        if o == "restart":
            up = True
            panic_seen = None
            note_panic()
        elif o == "hist":
            old = hist_state(hist.get(op["f"], {"kind": "none"}))[2]
            new = hist_state(op["h"])[2]
            if old is not None and (new is None or new < old):
                rewritten.add(op["f"])
            hist[op["f"]] = op["h"]
        elif o == "suspend":
            (susp.add if op.get("on") else susp.discard)(op["f"])
        elif o == "write":
            dirc[op["f"]] = op["c"]
            if up and is_dag_name(op["f"]):
                j = judge_content(op["c"])
                if j["panic"] and panic_seen is None:
                    panic_seen = j["panic"]
        elif o == "remove":
            dirc.pop(op["f"], None)
        elif o == "rename":
            if op["f"] in dirc and op["f"] != op["to"]:
                dirc[op["to"]] = dirc.pop(op["f"])
                if up and is_dag_name(op["to"]):
                    j = judge_content(dirc[op["to"]])
                    if j["panic"] and panic_seen is None:
                        panic_seen = j["panic"]
        elif o == "tick" and op.get("skipped"):
            continue
        elif o == "tick":
            m, wall = op["m"], op["wall"]
            if op.get("hung"):
                out.append({"op": i, "file": "", "what": "the tick of minute %d did not return within the watchdog's deadline: the daemon is "
                            "blocked (entry reader / watcher lock never released) and schedules nothing any more" % m,
                            "cls": {"class": "hung", "cause": "unexplained"}})
                continue
            for kind, f in op.get("late") or []:
                out.append({"op": i, "file": f, "what": "the %s of %s due at minute %d was issued only after the Start of %s (a long run) had "
                            "returned: the operations of one tick must not wait for each other" % (kind, f, m, ",".join(op.get("block") or [])),
                            "cls": {"class": "late-call", "cause": "unexplained"}})
            calls = {}
            for kind, f in op["calls"]:
                calls[(kind, f)] = calls.get((kind, f), 0) + 1
            names = set(dirc) | {f for _, f in calls}
            for f in sorted(names):
                n_start, n_stop, n_restart = (calls.get((k, f), 0) for k in ("start", "stop", "restart"))
                c = dirc.get(f)
                if c is None or not is_dag_name(f):
                    if n_start + n_stop + n_restart:
                        out.append({"op": i, "file": f, "what": "calls for a file that is not a DAG file of the directory",
                                    "cls": {"class": "spurious-call", "cause": "not-a-dag-file"}})
                    continue
                j = judge_content(c)
                if j["valid"] is not True:
                    continue   # an unloadable (or unjudged) file: nothing is required of it, only of the others
                err, running, last = hist_state(hist.get(f, {"kind": "none"}))
                sus = f in susp
                kinds = {}
                for kname, specs in zip(("start", "stop", "restart"), j["specs"]):
                    nm = sum(1 for _, sp in specs if matches(sp, m))
                    kinds[kname] = (nm, specs)
                # --- start: issued iff a start schedule matches m, not suspended, not running, last run started before m
                nm, specs = kinds["start"]
                guard = up and not sus and not err and not running and (last is None or last < m)
                exp = 1 if (nm > 0 and guard) else 0
                if n_start != exp:
                    cls = classify(n_start, exp, nm, specs, m, "start", guard, last, up and not sus and not err and not running,
                                   panic_seen)
                    what = ("%d start call(s) for %s at minute %d, the property requires %d (matching start schedules: %d, "
                            "suspended=%s running=%s status-error=%s last-start-minute=%s)"
                            % (n_start, f, m, exp, nm, sus, running, err, last))
                    out.append({"op": i, "file": f, "what": what, "cls": cls})
                key = (f, m)
                before = started_minutes.get(key, 0)
                started_minutes[key] = before + n_start
                if before > 0 and n_start > 0 and n_start == exp and f not in rewritten:
                    out.append({"op": i, "file": f, "what": "minute %d of %s started twice over the history" % (m, f),
                                "cls": {"class": "double-start", "cause": "across-ticks"}})
                # --- stop: only on running DAGs, and at every matching minute while running
                nm, specs = kinds["stop"]
                sguard = up and not sus and not err and running
                if n_stop > 0 and not running:
                    out.append({"op": i, "file": f, "what": "stop issued for %s at minute %d although it is not running" % (f, m),
                                "cls": {"class": "stop-not-running", "cause": "unexplained"}})
                elif (n_stop > 0) != (nm > 0 and sguard):
                    cls = classify(n_stop, 1 if (nm > 0 and sguard) else 0, nm, specs, m, "stop", sguard, None, sguard, panic_seen)
                    out.append({"op": i, "file": f, "what": "%d stop call(s) for %s at minute %d; matching stop schedules: %d, running=%s "
                                "suspended=%s" % (n_stop, f, m, nm, running, sus), "cls": cls})
                if n_stop > 1 or n_restart > 1:
                    out.append({"op": i, "file": f, "what": "%d stop and %d restart call(s) for %s at minute %d: an operation is "
                                "triggered at most once per DAG and minute" % (n_stop, n_restart, f, m),
                                "cls": {"class": "double-call", "cause": "unexplained"}})
                # --- restart: at each matching minute
                nm, specs = kinds["restart"]
                rguard = up and not sus
                if (n_restart > 0) != (nm > 0 and rguard):
                    cls = classify(n_restart, 1 if (nm > 0 and rguard) else 0, nm, specs, m, "restart", rguard, None, rguard, panic_seen)
                    out.append({"op": i, "file": f, "what": "%d restart call(s) for %s at minute %d; matching restart schedules: %d, "
                                "suspended=%s" % (n_restart, f, m, nm, sus), "cls": cls})
            # the environment: what the calls do to the latest status (the harness client does the same)
            allcalls = list(op["calls"]) + [list(x) for x in (op.get("late") or [])]
            started = {f for k, f in allcalls if k != "stop"}
            for k, f in allcalls:
                if k == "stop" and f not in started and hist.get(f, {}).get("kind") == "run":
                    hist[f] = {"kind": "done", "at": hist[f]["at"]}
            for f in started:
                hist[f] = {"kind": "run", "at": wall}
    return out


def has_zero_next(specs, m):
    return sum(1 for _, sp in specs if next_after(sp, 60 * m - 1) is None)


def classify(n, exp, nm, specs, m, kind, guard, last, base_guard, panic_seen):
    """Narrow class of a deviation, matched against known_findings.
    n: calls seen, exp: calls the property requires (0/1), nm: schedules of this kind matching m,
    guard: the property's full guard, base_guard: the guard without the `last start before m` clause."""
    if n < exp:
        if panic_seen:
            return {"class": "missed-call", "cause": "loader-panic", "via": panic_seen, "kind": kind}
        return {"class": "missed-call", "cause": "unexplained", "kind": kind}
    nz = has_zero_next(specs, m)
    if kind == "start":
        # a start schedule without activation in the horizon is invoked at every tick; its guard compares the last
        # start with the zero time, so it passes exactly for a DAG whose history has no parseable start time
        zero_pass = nz if (base_guard and last is None) else 0
        by_match = nm if guard else 0
        if n > by_match + zero_pass:
            return {"class": "double-start" if exp else "spurious-call", "cause": "unexplained", "kind": kind}
        if zero_pass == 0 or (by_match >= 2 and n <= by_match):
            return {"class": "double-start", "cause": "overlapping-start-specs", "kind": kind}
        return {"class": "double-start" if exp else "spurious-call", "cause": "zero-next", "kind": kind}
    if guard and nz > 0 and nm == 0:
        return {"class": "spurious-call", "cause": "zero-next", "kind": kind}
    return {"class": "spurious-call", "cause": "unexplained", "kind": kind}


# ---------------------------------------------------------------------------------------------
# Coq printers
# ---------------------------------------------------------------------------------------------

def coq_item(v):
    return "IStr %s" % cstring(v["s"]) if val_kind(v) == "s" else "IOther"


def coq_sval(v):
    k = val_kind(v)
    if k == "s":
        return "(SStr %s)" % cstring(v["s"])
    if k == "n":
        return "SNull"
    if k == "o":
        return "SOther"
    if k == "l":
        return "(SList %s)" % clist([coq_item(x) for x in v["l"]])
    kvs = []
    for key, val in v["m"]:
        ck = "KStr %s" % cstring(key["s"]) if val_kind(key) == "s" else "KOther"
        vk = val_kind(val)
        if vk == "s":
            cv = "MStr %s" % cstring(val["s"])
        elif vk == "l":
            cv = "MList %s" % clist([coq_item(x) for x in val["l"]])
        else:
            cv = "MOther"
        kvs.append("(%s, %s)" % (ck, cv))
    return "(SMap %s)" % clist(kvs)


def coq_content(c):
    if c.get("g"):
        return "(CSched SNull)" if c["g"] in ("empty", "nosched") else "CBad"
    return "(CSched %s)" % coq_sval(c["v"])


def coq_status(h):
    err, run, last = hist_state(h)
    return "{| st_err := %s; st_run := %s; st_last := %s |}" % (
        "true" if err else "false", "true" if run else "false", "None" if last is None else "(Some %s)" % cz(last))


def coq_op(op):
    o = op["op"]
    if o == "tick":
        return "OTick %s %s" % (cz(op["m"]), cz(op["wall"]))
    if o == "hist":
        return "OHist %s %s" % (cstring(op["f"]), coq_status(op["h"]))
    if o == "suspend":
        return "OSusp %s %s" % (cstring(op["f"]), "true" if op.get("on") else "false")
    if o == "write":
        return "OWrite %s %s" % (cstring(op["f"]), coq_content(op["c"]))
    if o == "remove":
        return "ORemove %s" % cstring(op["f"])
    if o == "rename":
        return "ORename %s %s" % (cstring(op["f"]), cstring(op["to"]))
    return "ORestart"


CALLC = {"start": "CStart", "stop": "CStop", "restart": "CRestart"}


def coq_seq(case):
    files = clist(["(%s, %s)" % (cstring(f["name"]), coq_content(f["c"])) for f in (case.get("files") or [])])
    xs = [o for _, o in expanded_ops(case)]
    ops = clist([coq_op(o) for o in xs])
    obs = clist(["(%s, %s)" % (clist(["%s %s" % (CALLC[k], cstring(f)) for k, f in o["calls"]]),
                               "true" if o["alive"] else "false") for o in xs])
    return "(%s,\n  %s,\n  %s)" % (files, ops, obs)


def coq_expr(case):
    obs = clist(["(%s, %s)" % (cz(t), "None" if n is None else "Some %s" % cz(n)) for t, n in (case.get("obs") or [])])
    return "(%s, %d%%nat, %s)" % (cstring(case.get("expr", "")), case["verdict"], obs)


def coq_sched(case):
    return "(%s, %d%%nat, %s)" % (coq_sval(case["val"]), case["verdict"],
                                  clist(["%d%%nat" % x for x in (case.get("counts") or [])]))
