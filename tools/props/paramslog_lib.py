"""Helpers shared by the C11 and C12 checks (Params / Log families)."""
import json
import os
import re
from concurrent.futures import ThreadPoolExecutor

import vlib
from vlib import cstring, clist


def coq_sections(ctx, name, header, sections, timeout=900):
    """sections: list of (result name, coq type of the case list, function name, [case terms]).
    One generated file; returns {result name: list | None}, error text."""
    parts = [header]
    for rn, ty, fn, terms in sections:
        parts.append("Definition cases_%s : list (%s) := [\n%s\n]." % (rn, ty, ";\n".join(terms)))
        parts.append("Definition %s := Eval vm_compute in %s cases_%s.\nPrint %s." % (rn, fn, rn, rn))
    rc, out, dt = vlib.coq_eval(ctx.scratch, name, "\n".join(parts) + "\n", timeout=timeout)
    if rc != 0:
        return None, out[-2000:]
    return {rn: vlib.coq_list_result(out, rn) for rn, _, _, _ in sections}, None


def shard(xs, n):
    return [xs[i:i + n] for i in range(0, len(xs), n)]


def run_parallel(fn, items, workers=8):
    with ThreadPoolExecutor(max_workers=workers) as ex:
        return list(ex.map(fn, items))


def write_jsonl(path, cases):
    with open(path, "w") as f:
        for c in cases:
            f.write(json.dumps(c) + "\n")


def replay_cases(tool, ctx, cases, tag="shr", timeout=600):
    """Re-runs the inputs of `cases` on the current tree through `<tool> <out> replay <in>`."""
    p_in = os.path.join(ctx.scratch, tag + "-in.jsonl")
    p_out = os.path.join(ctx.scratch, tag + "-out.jsonl")
    write_jsonl(p_in, cases)
    rc, out, dt = vlib.run_tool(tool, [p_out, "replay", p_in], timeout=timeout)
    if rc != 0 or not os.path.exists(p_out):
        return []
    return vlib.read_jsonl(p_out)


def greedy_shrink(tool, ctx, case, candidates, still_bad, rounds=40):
    """candidates(case) -> list of smaller cases; still_bad(observed case) -> bool."""
    cur = case
    for _ in range(rounds):
        cands = candidates(cur)
        if not cands:
            break
        res = [x for x in replay_cases(tool, ctx, cands) if still_bad(x)]
        if not res:
            break
        cur = min(res, key=lambda x: len(json.dumps(x)))
    return cur


def known_ids(pid):
    return {k["id"]: k for k in vlib.load_known() if k.get("property") == pid}
