"""C16 - at most one run of a DAG file is active at a time (DESIGN.md section 5, C16).

Proofs: coq/Props/C16.v over coq/Sock/Model.v (the protocol between agents, as repaired by a924e5c: probe..bind under an
exclusive flock on the DAG definition file, the socket path removed once) and coq/Agent/Run.v.
Runtime replay: harness/cmd/lock runs real `blackdagger start` / `retry` processes (binary built from the tree under check) on a
marker-file DAG, each under strace (socket system calls with time stamps; a delay injected to widen a window), at chosen phases of the
first run's life.  The interleaving a scenario realised is read off the time stamps, turned into a schedule of the model and replayed
inside Coq: the model must predict who was refused, who failed to bind, who executed and who recorded a run.  Monitors (independent of
the model) evaluate the property on what the processes did.  In-process agents (harness/cmd/agentrun, class `running`) add volume for
the sequential clause and for the former racing window.  The probe/bind race and the late unlink (F16a) were genuine defects of the
pinned tree (findings/C16-*.json), fixed by a924e5c: the same scenarios must now show mutual exclusion."""
import itertools
import json
import os

import vlib
from vlib import clist, cbool
from props import agent_lib

IDX = {"lock": 2, "probe": 3, "unlink": 7, "bind": 8, "shutunlink": 13}   # index of the action in Sock/Model.v `program`
MARGIN = 0.004     # seconds: observations closer than this to a boundary are not judged by the monitors
CLUSTER = 0.0015   # seconds: socket calls of different processes closer than this may have happened in either order
MAXCAND = 120


# ------------------------------------------------------------------------------------------------
# build the real binary
# ------------------------------------------------------------------------------------------------
def build_binary(ctx):
    out_bin = os.path.join(ctx.scratch, "blackdagger")
    rc, out, dt = vlib.sh(["go", "build", "-o", out_bin, "."], cwd=vlib.REPO, env=vlib.env_go(), timeout=900)
    if rc != 0:
        return None, out
    return out_bin, out


# ------------------------------------------------------------------------------------------------
# observations
# ------------------------------------------------------------------------------------------------
def anchor(p, act):
    for a in p["anchors"]:
        if a["act"] == act:
            return a
    return None


def lo(a):
    """earliest instant at which the call can have taken effect (entry, plus the injected delay)"""
    return a["t"]


def hi(a):
    """latest instant (exit of the call as strace saw it)"""
    return a["t"] + a.get("dur", 0.0) + 0.0003


def serving(p):
    """(bind certainly done, shutdown unlink not yet begun) of a process that bound successfully, else None"""
    b, s = anchor(p, "bind"), anchor(p, "shutunlink")
    if b and b["ok"]:
        return (hi(b), lo(s) if s else p["exited"])
    return None


def executed(p):
    return any(m["step"] == "a" for m in p["markers"])


def recorded(s, p):
    return any(h["pid"] == p["pid"] for h in s["hist"]) if p["pid"] else False


def klass(p):
    """1 finished normally, 2 refused (probe connected, nothing else done), 3 failed to bind, 0 other"""
    b = anchor(p, "bind")
    pr = anchor(p, "probe")
    if p["code"] == 0:
        return 1
    if b is not None and not b["ok"]:
        return 3
    if pr is not None and pr["ok"] and b is None and anchor(p, "unlink") is None:
        return 2
    return 0


def exec_interval(p):
    ts = [m["t"] for m in p["markers"]]
    return (min(ts), max(ts)) if ts else None


def race_class(s):
    """decidable class of the interleaving, from the time stamps of the socket calls alone"""
    ps = s["procs"]
    for a in ps:
        ap, ab = anchor(a, "probe"), anchor(a, "bind")
        if not ap or ap["ok"] or not ab:
            continue
        for b in ps:
            bp = anchor(b, "probe")
            if b is a or not bp or bp["ok"]:
                continue
            if lo(ap) <= hi(bp) and lo(bp) < hi(ab) and (lo(ap) < lo(bp) or a["i"] < b["i"]):
                return "probe-in-window"
    for a in ps:
        for x in a["anchors"]:
            if x["act"] in ("unlink", "shutunlink", "lateunlink") and x["ok"]:
                for b in ps:
                    sv = serving(b)
                    if b is not a and sv and sv[0] - 0.002 < hi(x) and lo(x) < sv[1] + 0.002:
                        return "foreign-unlink"
    return "none"


def monitors(s):
    """the property on what the processes did; list of (what, involved process indices)"""
    out = []
    ps = s["procs"]
    for b in ps:
        bp = anchor(b, "probe")
        for a in ps:
            sv = serving(a)
            if a is b or not sv or not bp:
                continue
            if sv[0] + MARGIN < lo(bp) and hi(bp) < sv[1] - MARGIN:
                # b asked while a was serving: b must be refused silently
                if (klass(b) != 2 or executed(b) or recorded(s, b) or b.get("hist_new", 0) > 0
                        or any(x["act"] not in ("lock", "probe") for x in b["anchors"])):
                    out.append(("a %s issued while run %s was active (bound, not shut down) was not refused silently: exit %d, "
                                "executed=%s, recorded=%s, new history entries=%d"
                                % (b["kind"], a["tag"], b["code"], executed(b), recorded(s, b), b.get("hist_new", 0)), [a["i"], b["i"]]))
    for b in ps:
        for a in ps:
            sv = serving(a)
            # b's whole life fell inside a's serving interval (whatever path spelling b was given, whatever socket it probed)
            if a is b or not sv or not b["exited"] or not (sv[0] + MARGIN < b["launched"] and b["exited"] < sv[1] - MARGIN):
                continue
            if b["code"] == 0 or executed(b) or recorded(s, b) or b.get("hist_new", 0) > 0:
                msg = ("a %s of the same file (given as %s) that lived entirely while run %s was active was not refused silently: exit %d, "
                       "executed=%s, recorded=%s, new history entries=%d"
                       % (b["kind"], b.get("path", "?"), a["tag"], b["code"], executed(b), recorded(s, b), b.get("hist_new", 0)))
                if not any(w[1] == [a["i"], b["i"]] for w in out):
                    out.append((msg, [a["i"], b["i"]]))
    for a in ps:
        sv = serving(a)
        if not sv:
            continue
        for pr in s["probes"]:
            if sv[0] + MARGIN < pr["t"] and pr.get("t2", pr["t"]) < sv[1] - MARGIN and (not pr["answered"] or pr["pid"] != a["pid"]):
                out.append(("the status endpoint of the active run %s did not answer a request at %s (answered=%s by pid %s)"
                            % (a["tag"], pr["label"], pr["answered"], pr["pid"]), [a["i"]]))
        if a["code"] == 0:
            steps = sorted(m["step"] for m in a["markers"])
            hs = [h for h in s["hist"] if h["pid"] == a["pid"]]
            if steps != ["a", "b", "exit_begin", "exit_end"] or len(hs) != 1 or hs[0]["status"] != "finished":
                out.append(("run %s was disturbed: steps %s, history %s" % (a["tag"], steps, hs), [a["i"]]))
    for a in ps:
        su, iv = anchor(a, "shutunlink"), exec_interval(a)
        if su and su["ok"] and iv and hi(su) < iv[1] - 0.05:
            out.append(("run %s removed its status socket %.2f s before its steps and handlers had ended (an active run must keep its endpoint)"
                        % (a["tag"], iv[1] - hi(su)), [a["i"]]))
    for a, b in itertools.combinations(ps, 2):
        ia, ib = exec_interval(a), exec_interval(b)
        if ia and ib and ia[0] < ib[1] and ib[0] < ia[1]:
            out.append(("two runs of the file executed steps at the same time (%s and %s)" % (a["tag"], b["tag"]), [a["i"], b["i"]]))
    for p in ps:
        if p["code"] != 0 and (recorded(s, p) or executed(p) or p.get("hist_new", 0) > 0):
            out.append(("%s %s ended with an error (exit %d) but recorded a run / executed steps (recorded=%s, executed=%s)"
                        % (p["kind"], p["tag"], p["code"], recorded(s, p), executed(p)), [p["i"]]))
    return out


# ------------------------------------------------------------------------------------------------
# from time stamps to schedules of the model
# ------------------------------------------------------------------------------------------------
def events(s):
    ev = []
    for p in s["procs"]:
        for a in p["anchors"]:
            ev.append((lo(a), p["i"], a["act"], hi(a), a["ok"]))
        if p.get("exited"):
            last = max([hi(a) for a in p["anchors"]] + [p["launched"]])
            ev.append((max(p["exited"], last + 1e-6), p["i"], "exit", max(p["exited"], last + 1e-6), True))
    for t in s.get("saves", []):
        ev.append((t, -1, "save", t, True))
    ev.sort()
    return ev


def candidate_orders(ev, cluster=CLUSTER, maxcand=MAXCAND):
    """the observed order first; then every order that permutes only calls of different processes whose time windows are
    closer than `cluster`"""
    clusters, cur = [], []
    reach = 0.0
    for e in ev:
        if cur and e[0] - reach > cluster:
            clusters.append(cur)
            cur = []
            reach = 0.0
        cur.append(e)
        reach = max(reach, e[3])
    if cur:
        clusters.append(cur)

    def orders(cl):
        if len(cl) == 1 or len({e[1] for e in cl}) == 1 or len(cl) > 6:
            return [cl]
        res = []
        for perm in itertools.permutations(cl):
            ok = True
            last = {}
            for e in perm:  # keep each process' own order
                if e[1] in last and last[e[1]] > e[0]:
                    ok = False
                    break
                last[e[1]] = e[0]
            if ok:
                res.append(list(perm))
        res.sort(key=lambda pm: pm != cl)
        return res
    per = [orders(c) for c in clusters]
    out = []
    for combo in itertools.product(*per):
        out.append([e for c in combo for e in c])
        if len(out) >= maxcand:
            break
    return out


def schedule(order, nprocs):
    """model schedule items: (0,p) = p performs its next action, (2,p) = p runs to its end.  Returns None when the processes made
    a socket call the model does not have (a second removal of the path after the shutdown)."""
    pc = [0] * nprocs
    items = []
    done = set()
    for (_, i, act, _hi, ok) in order:
        if act == "save":     # the DAG definition was saved (label Save of the model)
            items.append((3, 0))
            continue
        if act == "exit":     # the process is gone: whatever remained of its program has happened
            items.append((2, i))
            done.add(i)
            continue
        if act not in IDX:
            return None
        k = IDX[act] - pc[i] + 1
        if k <= 0:
            k = 1
        items += [(0, i)] * k
        pc[i] = IDX[act] + 1
        if act == "bind" and ok:   # the lock is released as soon as the socket listens
            items.append((0, i))
            pc[i] += 1
    for i in range(nprocs):
        if i not in done:
            items.append((2, i))
    return items


def coq_case(items, n, obs):
    return "(0, %d, %s, %s, 2)" % (n, clist(["(%d, %d)" % it for it in items]),
                                   clist(["(%d, %s, %s)" % (k, cbool(e), cbool(h)) for (k, e, h) in obs]))


def model_replay(ctx, scns, cluster=CLUSTER, maxcand=MAXCAND, tag="cases_c16"):
    """returns for each scenario: agrees?, code (1 not an execution of the model, 2 fates differ, 8 a call the model does not have),
    number of orderings tried.  Scenarios the model does not reproduce with the tight ordering tolerance are tried once more with
    a wide one (loaded machine: the time stamp of a call and its effect can be milliseconds apart)."""
    cases, owner = [], []
    foreign = set()
    for si, s in enumerate(scns):
        n = len(s["procs"])
        obs = [(klass(p), executed(p), recorded(s, p)) for p in s["procs"]]
        for ci, order in enumerate(candidate_orders(events(s), cluster, maxcand)):
            items = schedule(order, n)
            if items is None:
                foreign.add(si)
                break
            cases.append(coq_case(items, n, obs))
            owner.append((si, ci))
    bad = []
    if cases:
        txt = ("From Coq Require Import List Bool Arith.\nImport ListNotations.\nFrom BD.Sock Require Import Model Check.\n"
               "Definition cases : list rcase := [\n%s\n].\n"
               "Definition M := Eval vm_compute in mismatches cases.\nPrint M.\n") % ";\n".join(cases)
        rc, out, dt = vlib.coq_eval(ctx.scratch, tag, txt)
        bad = vlib.coq_list_result(out, "M") if rc == 0 else None
        if bad is None:
            ctx.fail("correspondence", "the protocol model could not be evaluated on the replay cases (coqc failed)", {"log": out[-1500:]})
            return None
    badset = {k: code for (k, code) in bad}
    res = []
    for si, s in enumerate(scns):
        if si in foreign:
            res.append({"agrees": False, "code": 8, "candidates": 0})
            continue
        mine = [k for k, (a, _) in enumerate(owner) if a == si]
        ok = [k for k in mine if k not in badset]
        res.append({"agrees": bool(ok), "candidates": len(mine), "code": badset.get(mine[0], 0) if mine else 0})
    if cluster == CLUSTER:
        again = [k for k, r in enumerate(res) if not r["agrees"] and r["code"] != 8]
        if again:
            wide = model_replay(ctx, [scns[k] for k in again], cluster=0.03, maxcand=400, tag=tag + "_wide")
            if wide:
                for k, r in zip(again, wide):
                    if r["agrees"]:
                        r["widened"] = True
                        res[k] = r
    return res


# ------------------------------------------------------------------------------------------------
def summary(s):
    return {"name": s["name"], "delay_us": s["delay_us"],
            "procs": [{"tag": p["tag"], "kind": p["kind"], "inject": p["inject"], "code": p["code"], "class": klass(p),
                       "path": p.get("path"), "executed": executed(p), "recorded": recorded(s, p),
                       "calls": [(a["act"], round(a["t"] - s["procs"][0]["launched"], 4), a["ok"]) for a in p["anchors"]],
                       "steps": [(m["step"], round(m["t"] - s["procs"][0]["launched"], 3)) for m in p["markers"]]} for p in s["procs"]],
            "probes": [(pr["label"], round(pr["t"] - s["procs"][0]["launched"], 3), pr["answered"], pr["pid"]) for pr in s["probes"]],
            "hist": s["hist"]}


def run_lock(ctx, names=None, tier=None):
    binp, out = build_binary(ctx)
    if binp is None:
        ctx.fail("correspondence", "the blackdagger binary does not build from the tree under check", {"log": out[-2000:]})
        return None
    tool, out, _ = vlib.go_build("lock", ctx.scratch)
    if tool is None:
        ctx.fail("correspondence", "harness does not build against /repo", {"log": out[-2000:]})
        return None
    p = os.path.join(ctx.scratch, "lock.jsonl")
    work = os.path.join(ctx.scratch, "lockwork")
    os.makedirs(work, exist_ok=True)
    args = [p, tier or ctx.tier, work, binp] + ([",".join(names)] if names else [])
    rc, out, dt = vlib.run_tool(tool, args, env_extra={"VERIF_SEED": str(ctx.seed)}, timeout=420 if (tier or ctx.tier) == "quick" else 1700)
    scns = vlib.read_jsonl(p) if os.path.exists(p) else []
    if rc != 0:
        ctx.fail("correspondence", "lock driver failed or timed out (rc %d)" % rc, {"log": out[-2000:]})
    for s in scns:
        if s.get("infra"):
            ctx.notes.append("scenario %s not observed: %s" % (s["name"], s["infra"]))
    return [s for s in scns if not s.get("infra") and s["procs"]]


def run(ctx, names=None):
    ctx.proofs(extra=["Sock/Check.vo"] + agent_lib.EXTRA_VO)
    scns = run_lock(ctx, names)
    if scns is None:
        return ctx.finish()
    rep = model_replay(ctx, scns)
    nviol = 0
    classes = {}
    for k, s in enumerate(scns):
        rc_ = race_class(s)
        classes[rc_] = classes.get(rc_, 0) + 1
        r = rep[k] if rep else {"agrees": True, "candidates": 0, "code": 0}
        cls = {"class": rc_}
        for what, who in monitors(s):
            nviol += 1
            ctx.fail("monitor", what, summary(s), cls=cls)
        if rep and not r["agrees"]:
            why = {1: "the interleaving is not an execution of the model (e.g. the lock was not exclusive)", 2: "the processes' fates differ",
                   8: "a process removed the socket path again after its shutdown - the model has no such action"}.get(r["code"], "code %d" % r["code"])
            ctx.fail("correspondence", "the protocol model does not reproduce what the processes did in scenario %s: %s (%d orderings of "
                     "near-simultaneous calls tried)" % (s["name"], why, r["candidates"]), summary(s), cls={"class": "model-" + rc_})
    # in-process agents: second start / retry while the first is active (sequential clause, volume)
    acases = None
    if names is None:
        acases = agent_lib.run_cases(ctx, ["running", "race", "frozen"], tag="agentrun16")
        if acases:
            for c in acases:
                why = agent_lib.monitor(c)
                if why:
                    ctx.fail("monitor", why, c, cls={"class": "agent-running", "sub": c["sub"]})
            agent_lib.check_model(ctx, [c for c in acases if c["class"] in ("running", "frozen")], tag="c16_agent")
            agent_race(ctx, [c for c in acases if c["class"] == "race"])
    fill_evidence(ctx, scns, rep, classes, acases)
    if ctx.tier == "thorough":
        ctx.coqchk()

    def search():
        more = run_lock(ctx, None, tier="thorough")
        for s in more or []:
            ms = [m for m in monitors(s) if race_class(s) == "none"]
            if ms:
                return {"what": ms[0][0], "scenario": summary(s)}
        return None
    return ctx.finish(search=search)


def agent_race(ctx, cases):
    """in-process, deterministic: agent A is held inside its locked section (after its probe, before its history open); B is started
    meanwhile and must wait; A is released, binds and stays inside its first step; B and a third start C must then be refused
    silently.  The schedule of the model is known by construction; the agents' fates are compared with it."""
    if not cases:
        return
    fate = {"none": 1, "step": 1, "running": 2, "socket": 3}
    txt_cases = []
    for c in cases:
        save = [(3, 0)] if c["sub"] == "save" else []   # the definition saved (real DAGStore.UpdateSpec) while A is inside its section
        items = [(0, 0)] * 5 + save + [(0, 1)] * 2 + [(0, 0)] * 6 + [(0, 1)] * 2 + [(0, 2)] * 4 + [(2, 0)]
        runs = [c] + c.get("others", [])
        obs = [(fate.get(o["err_kind"], 0), len(o["exec"]) > 0, "open" in o["log"]) for o in runs]
        txt_cases.append(coq_case(items, len(runs), obs))
    txt = ("From Coq Require Import List Bool Arith.\nImport ListNotations.\nFrom BD.Sock Require Import Model Check.\n"
           "Definition cases : list rcase := [\n%s\n].\n"
           "Definition M := Eval vm_compute in mismatches cases.\nPrint M.\n") % ";\n".join(txt_cases)
    rc, out, dt = vlib.coq_eval(ctx.scratch, "cases_c16_race", txt)
    bad = vlib.coq_list_result(out, "M") if rc == 0 else None
    if bad is None:
        ctx.fail("correspondence", "the protocol model could not be evaluated on the in-process race cases", {"log": out[-1500:]})
        return
    for c in cases:
        runs = [c] + c.get("others", [])
        others = runs[1:]
        what = None
        if c.get("both_active") or any(o["exec"] for o in others):
            what = ("two agents of one DAG file executed steps at the same time (A held inside its locked section%s, B started meanwhile; "
                    "B waited for the lock: %s)" % (", the definition saved through DAGStore.UpdateSpec" if c["sub"] == "save" else "", c.get("b_waited")))
        elif any(o["err_kind"] != "running" or [x for x in o["log"] if x != "probe"] for o in others):
            what = "a start issued while A was inside its probe-and-bind section / active was not refused silently: %s" % [
                (o["err_kind"], o["log"]) for o in others]
        elif c["hist_during"] != 1 or c["status_before"] != "running" or c["status_after"] != "running":
            what = "A was disturbed: %d history files, endpoint answered %r / %r" % (c["hist_during"], c["status_before"], c["status_after"])
        elif c["err_kind"] != "none" or len(c["hist_files"]) != 1:
            what = "A did not complete normally: %r, history %s" % (c["err"], c["hist_files"])
        if what:
            ctx.fail("monitor", "in-process: " + what, c, cls={"class": "agent-race", "sub": c["sub"]})
    for (k, code) in bad:
        ctx.fail("correspondence", "in-process race: the protocol model does not predict the agents' fates (code %d; B waited for the lock: %s)"
                 % (code, cases[k].get("b_waited")), cases[k], cls={"class": "model-agent-race"})


def fill_evidence(ctx, scns, rep, classes, acases):
    nproc = sum(len(s["procs"]) for s in scns)
    seen = set()
    for s in scns:
        if len(s["procs"]) >= 2:
            seen.add((s["name"], tuple((p["kind"], klass(p), executed(p)) for p in s["procs"]), race_class(s)))
    ctx.cov["evaluations"] = nproc + (len(acases) if acases else 0)
    ctx.cov["traces_validated_against_impl"] = len(scns) + (len(acases) if acases else 0)
    ctx.cov["distinct_nontrivial"] = len(seen) + len({(c["sub"], c["retry"], tuple(s["name"] for s in c["steps"])) for c in (acases or [])})
    ctx.cov["rule"] = ("scenario = 2..6 real blackdagger processes (start / retry) on one DAG file, each under strace; evaluations = processes "
                       "observed (+ in-process agent runs); a scenario is validated when the schedule read off the time stamps of its socket calls, "
                       "replayed in the Coq model, predicts every process' fate (finished / refused / bind failed, executed, recorded); distinct "
                       "non-trivial = distinct (scenario, fates of the processes, race class) with at least two processes, plus distinct in-process "
                       "(phase, retry, DAG shape)")
    ctx.cov["scenarios"] = {"%d:%s" % (k, s["name"]): {"procs": len(s["procs"]), "race_class": race_class(s),
                                        "fates": [klass(p) for p in s["procs"]],
                                        "model_agrees": rep[k]["agrees"] if rep else None,
                                        "orderings_tried": rep[k]["candidates"] if rep else None} for k, s in enumerate(scns)}
    ctx.cov["timing_classes"] = classes
    ctx.cov["lock_waits_observed"] = len([1 for s in scns for p in s["procs"] for a in s["procs"]
                                          if a is not p and anchor(p, "lock") and anchor(a, "lock") and anchor(a, "bind")
                                          and p["launched"] < hi(anchor(a, "bind")) and lo(anchor(a, "lock")) < lo(anchor(p, "lock"))
                                          and lo(anchor(p, "lock")) > p["launched"] + 0.3])
    ctx.cov["second_attempts_during_active_run"] = len([1 for s in scns for b in s["procs"] for a in s["procs"]
                                                       if a is not b and serving(a) and anchor(b, "probe")
                                                       and serving(a)[0] < anchor(b, "probe")["t"] < serving(a)[1]])
    if acases:
        ctx.cov["agent_runs"] = agent_lib.summary(acases)
    for s in scns[:2]:
        ctx.sample(summary(s))
    ctx.cov["trusted_base"] += [
        "unix socket semantics as modelled: bind fails on an existing path, unlink removes whatever is at the path, a listener survives the "
        "unlink of its path but is unreachable, connect to a path nobody listens on is refused (DESIGN.md Appendix B)",
        "flock(LOCK_EX) semantics as modelled: one holder at a time, granted when the call returns, released by close",
        "strace -ttt time stamps order the socket calls of different processes; calls closer than 1.5 ms are tried in both orders",
        "granularity: each model action is one or a few system calls; socket liveness (who answers) is runtime behaviour observed by the replay"]
    ctx.assumptions = ["graph accepted, DAG preconditions met, not a dry run (the other cases end before the probe: Agent/Run.v)",
                       "the history store can be opened",
                       "flock on the DAG definition file is exclusive and released at close (modelled primitive); a DAG without a readable "
                       "definition file is not locked by the code (not reachable from start/retry); process death is not modelled"]
    ctx.level = "proof"


def replay(ctx, path):
    body = json.load(open(path))
    names = []
    for f in body.get("failures", []):
        c = f.get("case")
        if isinstance(c, dict) and "name" in c and c["name"] not in names:
            names.append(c["name"])
    fi = body.get("failing_input")
    if isinstance(fi, dict) and isinstance(fi.get("scenario"), dict):
        names.append(fi["scenario"]["name"])
    if not names:
        return run(ctx)
    return run(ctx, names=names)
