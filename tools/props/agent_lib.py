"""Shared helper for the agent-level clauses (C14 refused graph, C03 dry run, C04 unmet DAG precondition, C16 already
running): runs harness/cmd/agentrun (the real agent.New(...).Run in process, scripted executor, recording client and
history store) and compares every observation with `run` of coq/Agent/Run.v through coq/Agent/Check.v.

    import props.agent_lib as agent_lib            (or: from props import agent_lib)
    cases = agent_lib.run_cases(ctx, ["refused"])   # None = all default classes; returns the parsed JSONL (list of dict) or None
    cases = agent_lib.run_cases(ctx, ["retry"])     # C10: failed / stopped run retried with a new request id; monitor_retry(c)
    agent_lib.check_model(ctx, cases)               # ctx.fail("correspondence", ...) for every disagreement with the model
    for c in cases: why = agent_lib.monitor(c)      # class monitors (the property clause on what the agent did)

JSONL format (one object per run; see harness/cmd/agentrun/main.go `Case`):
  k, class (refused|dry|pre|running|normal|bindfail), sub, steps [{name, depends}], handlers [exit|success|failure|cancel],
  dry, has_pre, pre_ok, retry, probe_running (another agent of the file was active), bind_ok,
  err (text, "" = nil), err_kind (none|cycle|missing|precondition|running|socket|step|other),
  log: ordered list of "probe" | "removeold" | "open" | "write" | "close" | "exec:<step or handler name>"
       (| "panic:write-after-close": jsondb dereferenced its nil writer in a Write issued after Close - recovered by the driver),
  exec: sorted names whose executor Run was entered, hist_files: files under the data dir after the run,
  sock_seen / sock_after: the socket path existed during / after the run, final: agent.Status() text, duration_ms,
  hung (Run did not return within 6 s; the log is what was seen until then), stopped (it returned after the driver's SIGTERM),
  class running only: first {same observation fields of the first run}, status_before / status_after (endpoint answers around the
  second attempt), hist_during (history files while the first was active), infra (driver problem, not an observation).
Add `"dry"` / `"pre"` to ctx.proofs(extra=["Agent/Check.vo"]) users: the .vo must be built before check_model."""
import os

import vlib
from vlib import cstring, clist, cbool

EV = {"probe": 0, "removeold": 1, "open": 2, "write": 3, "close": 4}
EXTRA_VO = ["Agent/Check.vo"]


def run_cases(ctx, classes=None, tier=None, tag="agentrun"):
    tool, out, _ = vlib.go_build("agentrun", ctx.scratch)
    if tool is None:
        ctx.fail("correspondence", "agent driver does not build against /repo", {"log": out[-2000:]})
        return None
    p = os.path.join(ctx.scratch, tag + ".jsonl")
    work = os.path.join(ctx.scratch, tag + "-work")
    os.makedirs(work, exist_ok=True)
    args = [p, tier or ctx.tier, work]
    if classes:
        args.append(",".join(classes))
    # the driver has a per-run watchdog (6 s) and a global one (4 min quick / 25 min thorough); the timeout here is a last resort
    rc, out, dt = vlib.run_tool(tool, args, env_extra={"VERIF_SEED": str(ctx.seed)}, timeout=330 if (tier or ctx.tier) == "quick" else 1700)
    cases = vlib.read_jsonl(p) if os.path.exists(p) else []
    if rc != 0:
        ctx.fail("correspondence", "agent driver failed or timed out (rc %d, %d cases written)" % (rc, len(cases)), {"log": out[-2000:]})
        if not cases:
            return None
    for c in cases:
        if c.get("infra"):
            ctx.notes.append("agentrun case %d (%s/%s) not observed: %s" % (c["k"], c["class"], c["sub"], c["infra"]))
    return [c for c in cases if not c.get("infra") and c.get("class") != "?"]


def hist_actions(c):
    return [x for x in c["log"] if x in ("removeold", "open", "write", "close")]


def monitor(c):
    """The agent-level clause of the property, on what the real agent did (independent of the model)."""
    cl = c["class"]
    if c.get("hung"):
        return "agent.Run (%s/%s) did not return within the watchdog time; until then it did: %s" % (cl, c["sub"], c["log"][:12])
    if cl == "refused":
        if c["err_kind"] not in ("cycle", "missing"):
            return "a malformed dependency graph was not refused (error: %r)" % c["err"]
        if c["exec"]:
            return "refused run: a step or handler was executed: %s" % c["exec"]
        if c["hist_files"] or hist_actions(c):
            return "refused run: history was recorded: %s %s" % (c["hist_files"], hist_actions(c))
        if c["sock_seen"] or "probe" in c["log"]:
            return "refused run: socket activity (probe or endpoint)"
    elif cl == "dry":
        if c["exec"]:
            return "dry run: an executor was run: %s" % c["exec"]
        if c["hist_files"] or hist_actions(c):
            return "dry run: history was recorded: %s %s" % (c["hist_files"], hist_actions(c))
    elif cl == "pre" and not c["pre_ok"]:
        if c["err_kind"] != "precondition":
            return "unmet DAG precondition: the run was not refused (error: %r)" % c["err"]
        if c["exec"]:
            return "unmet DAG precondition: a step or handler was executed: %s" % c["exec"]
        if c["hist_files"] or hist_actions(c):
            return "unmet DAG precondition: history was recorded: %s %s" % (c["hist_files"], hist_actions(c))
    elif cl == "frozen":
        if c["err"] == "" or c["exec"] or hist_actions(c) or c["hist_files"]:
            return ("a start whose 'already running?' probe timed out (the socket is held by a frozen process) was not refused silently: "
                    "error %r, executed %s, history %s %s" % (c["err"], c["exec"], hist_actions(c), c["hist_files"]))
        if not c.get("endpoint_intact"):
            return "a start whose probe timed out removed / replaced the socket of the frozen run"
    elif cl == "running" and c["probe_running"]:
        f = c.get("first") or {}
        if c["err_kind"] != "running":
            return "a second %s was not refused while the first run was active (error: %r)" % ("retry" if c["retry"] else "start", c["err"])
        if c["exec"]:
            return "the refused second run executed: %s" % c["exec"]
        if hist_actions(c) or c["hist_during"] != 1:
            return "the refused second run touched the history (%s, %d files)" % (hist_actions(c), c["hist_during"])
        if c["status_before"] != "running" or c["status_after"] != "running":
            return "the first run's status endpoint did not keep answering (%s / %s)" % (c["status_before"], c["status_after"])
        want = sorted([s["name"] for s in c["steps"]] + ["on" + h.capitalize() for h in c["handlers"] if h in ("exit", "success")])
        if f.get("err_kind") != "none" or f.get("exec") != want or len(f.get("hist_files", [])) != 1:
            return "the first run was disturbed: error %r, executed %s (expected %s), history %s" % (
                f.get("err"), f.get("exec"), want, f.get("hist_files"))
    return None


def monitor_retry(c):
    """C10 clause "a retry is recorded as a new run" (class `retry` of agentrun: run_cases(ctx, ["retry"])), on what the real agents and
    the real history store did; None or a description of the failure.  c["retry_obs"]: first_reqid, retry_reqid, hist_before / hist_after
    (relative file name -> sha256), first_record (the RetryTarget as read back by FindByRequestID: reqid, status, params, nodes [{name,
    status}], handlers), first_record_after, retry_record, yaml_changed / extra_step (the definition on disk got an extra step before
    the retry).  c["exec"] / c["log"] are the retry's executor events, c["first"] the first run's observation."""
    if c.get("class") != "retry":
        return None
    if c.get("hung"):
        return "the retry did not return within the watchdog time; until then it did: %s" % c["log"][:12]
    r = c["retry_obs"]
    before, after = r["hist_before"], r["hist_after"]
    fr, rr = r["first_record"], r["retry_record"]
    for name, h in before.items():
        if after.get(name) != h:
            return ("the retry changed the record of the first run: history file %s %s" %
                    (name, "is gone" if name not in after else "has different content"))
    new = sorted(set(after) - set(before))
    if len(new) != 1:
        return "the retry did not record exactly one new run: new history files %s" % new
    if r["first_record_after"] != fr:
        return "the first run's record reads back differently after the retry: %s -> %s" % (fr, r["first_record_after"])
    if not rr["found"] or rr["reqid"] != r["retry_reqid"] or rr["reqid"] == r["first_reqid"]:
        return "the new record does not carry the retry's own request id: %s (retry %s, first %s)" % (rr.get("reqid"), r["retry_reqid"], r["first_reqid"])
    if rr["file"] != new[0]:
        return "the retry's record is not the new file: %s vs %s" % (rr["file"], new[0])
    if rr["params"] != fr["params"]:
        return "the retry's record has other parameters: %r vs %r" % (rr["params"], fr["params"])
    done = {n["name"] for n in fr["nodes"] if n["status"] == "finished"}
    rec_steps = {n["name"] for n in fr["nodes"]}
    ran = [x for x in c["exec"] if not x.startswith("on")]
    again = sorted(done & set(ran))
    if again:
        return "steps recorded finished in the first run were executed again by the retry: %s" % again
    foreign = sorted(set(ran) - rec_steps)
    if foreign:
        return "the retry executed steps that are not in the recorded run (it must use the steps of the record): %s" % foreign
    if [n["name"] for n in rr["nodes"]] != [n["name"] for n in fr["nodes"]]:
        return "the retry's record lists other steps than the recorded run: %s vs %s" % ([n["name"] for n in rr["nodes"]], [n["name"] for n in fr["nodes"]])
    return None


def coq_case(c):
    steps = clist(["mk %s %s" % (cstring(s["name"]), clist([cstring(d) for d in s["depends"]])) for s in c["steps"]])
    log = clist([str(EV.get(x, 5)) for x in c["log"] if not x.startswith("panic:")])
    chk_sock = not c["probe_running"] and c["class"] != "running" and c["bind_ok"]
    hist = len(c["hist_files"]) > 0 if c["class"] != "running" else ("open" in c["log"])
    return "((%s, %s, %s, %s, %s, %s, %s), (%s, %s, %s, %s))" % (
        steps, cbool(c["has_pre"]), cbool(c["pre_ok"]), cbool(c["dry"]), cbool(c["probe_running"]), cbool(c["bind_ok"]), cbool(chk_sock),
        cbool(c["err"] != ""), log, cbool(c["sock_seen"]), cbool(hist))


WHAT = {1: "error flag", 2: "log is not a projection of the model's action list", 4: "socket activity", 8: "history files"}


def check_model(ctx, cases, tag="agent"):
    """Every observation against Agent/Run.v (`run`) via Agent/Check.v; returns the list of (case, code)."""
    if not cases:
        return []
    # a run that ended with a step error returns an error although the model's flag only covers refusals: the
    # model's `err` is "returned before/without scheduling", so a failed step is mapped to err=false
    def norm(c):
        if c["err_kind"] in ("step", "other") and "exec:" in " ".join(c["log"]):
            c = dict(c)
            c["err"] = ""
        return c
    txt = ("From Coq Require Import List String Ascii Bool.\nImport ListNotations.\nOpen Scope string_scope.\n"
           "From BD.Graph Require Import Kahn Accept AcceptCheck.\nFrom BD.Agent Require Import Run Check.\n"
           "Definition cases : list acase := [\n%s\n].\n"
           "Definition M := Eval vm_compute in mismatches cases.\nPrint M.\n") % ";\n".join(coq_case(norm(c)) for c in cases)
    rc, out, dt = vlib.coq_eval(ctx.scratch, "cases_%s" % tag, txt)
    res = vlib.coq_list_result(out, "M") if rc == 0 else None
    if res is None:
        ctx.fail("correspondence", "the agent model could not be evaluated on the agent cases (coqc failed)", {"log": out[-1500:]})
        return []
    bad = []
    for (k, code) in res:
        c = cases[k]
        what = ", ".join(v for b, v in WHAT.items() if code & b)
        ctx.fail("correspondence", "agent run (%s/%s) differs from the model Agent/Run.v: %s" % (c["class"], c["sub"], what), c,
                 cls={"class": "agent-" + c["class"], "sub": c["sub"]})
        bad.append((c, code))
    return bad


def summary(cases):
    out = {}
    for c in cases:
        key = "%s/%s" % (c["class"], c["sub"])
        out[key] = out.get(key, 0) + 1
    return out
