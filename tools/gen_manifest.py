#!/usr/bin/env python3
"""Regenerates /verif/MANIFEST.json from the table below (python3 tools/gen_manifest.py)."""
import json, os
HERE = os.path.dirname(os.path.dirname(os.path.abspath(__file__)))
BASE_NOTE = ("Trusted: Coq 8.16.1 kernel (vm_compute used, native_compute not), the hand-written Gallina model "
             "(modelled, not verified), the correspondence harness (Go driver built from /repo with -tags verif, "
             "JSON->cases.v printer), Go toolchain/runtime/OS/third-party libraries. Axioms: none "
             "(Print Assumptions: closed under the global context). ")
# id -> (claimed?, level text, level note addition, technique, design ref)
P = {
 "C14": (True,
         "Machine-checked proof (Coq) that the model of graph admission (name resolution + the code's Kahn elimination) "
         "accepts a list of distinctly named steps iff every depends entry resolves and the dependency relation is acyclic, "
         "for every graph of every size; the model is tied to /repo on every run by a differential run of the real "
         "scheduler.NewExecutionGraph (exhaustive small digraphs + random graphs up to 40 steps; the same graphs written as DAG files "
         "and taken through the real loader dag.LoadYAML first, incl. a self-dependency hidden in a longer depends list; and graphs of 12 "
         "and 23 steps judged in a process of their own, where node ids are 1..n as in a real start) evaluated inside Coq, "
         "and the implementation's verdict is also checked against an independent statement of the property; the agent-level clause "
         "(a refused graph: no step, no handler, nothing recorded) is proved on the agent's action-list model and checked on real in-process "
         "agent runs (cycle / missing dependency / control), with a watchdog: an admitted cyclic graph that makes the agent hang is a monitor "
         "failure. Link to the scheduler model: every configuration that passes admission has a rank decreasing along dependencies "
         "(C14_accepted_graph_wf_deps) and every run of it can be driven to completion from any reachable state (C14_accepted_graph_completes); an accepted edge list has a duplicate-free order of all its nodes in which every dependency of a node stands behind it (C14_accepted_has_topological_order).",
         "Modelled: findStep/addEdge/hasCycle of graph.go and the order of actions of agent.Run. Step names distinct (premise of the property).",
         "Coq proof (Kahn elimination <-> acyclic, induction + pigeonhole) + differential correspondence evaluated by vm_compute",
         "DESIGN.md section 5, C14"),
}
# per-property fragments: tools/manifest.d/Cxx.json = {"claimed": true, "text": ..., "note": ..., "technique": ..., "ref": ...}
MD = os.path.join(HERE, "tools", "manifest.d")
if os.path.isdir(MD):
    for f in sorted(os.listdir(MD)):
        if f.endswith(".json"):
            d = json.load(open(os.path.join(MD, f)))
            P[f[:-5]] = (d.get("claimed", True), d["text"], d["note"], d["technique"], d.get("ref", "DESIGN.md section 5, " + f[:-5]))
ALL = ["C%02d" % i for i in range(1, 21)]
checks, na = [], []
for pid in ALL:
    if pid in P and P[pid][0]:
        _, text, note, tech, ref = P[pid]
        checks.append({
            "property_id": pid,
            "quick_cmd": "./check %s --tier quick" % pid,
            "thorough_cmd": "./check %s --tier thorough" % pid,
            "evidence_file": "evidence/%s.json" % pid,
            "replay_cmd_template": "./check %s --replay {path}" % pid,
            "engine": "coq-model+correspondence",
            "level_claimed": {"category": "proof", "text": text, "design_ref": ref},
            "level_note": BASE_NOTE + note,
            "technique": tech,
        })
    else:
        na.append({"property_id": pid, "reason": "not claimed yet: the Coq model, theorems and correspondence harness for this "
                   "property are still being built (planned in DESIGN.md section 5); the technique applies"})
m = {
 "version": 1,
 "setup_cmd": "./tools/setup.sh",
 "hooks": {"guard": "verif", "enable": "go build -tags verif (harness module github.com/ErdemOzgen/blackdagger/verifh, replace => /repo)",
           "baseline_off_cmd": "cd /repo && go test -mod=mod -vet=off -count=1 -timeout 25m ./...",
           "source_commits": ["6c4f45f"], "add_only": True},
 "engines": [{"name": "coq-model+correspondence", "path": "check",
              "serves_properties": [c["property_id"] for c in checks],
              "kind_free_text": "Coq 8.16.1 development under coq/ (models, proofs, Props/<id>.v) + Go harness under harness/ driving the "
                                "real code + python driver tools/props/<id>.py comparing implementation and model (vm_compute)"}],
 "checks": checks,
 "not_applicable": na,
 "notes": "See DESIGN.md. known_findings.json lists recorded genuine defects (state known) and repaired ones (state fixed).",
}
json.dump(m, open(os.path.join(HERE, "MANIFEST.json"), "w"), indent=1)
# merge known-finding fragments into the single committed file
import sys
sys.path.insert(0, os.path.join(HERE, "tools"))
import vlib
json.dump(vlib.load_known(), open(os.path.join(HERE, "known_findings.json"), "w"), indent=1)
print("claimed:", [c["property_id"] for c in checks])
