#!/bin/bash
# Runs every thorough tier once, sequentially, and prints one line per property (used for timing / sanity; evidence is
# rewritten by each run, so the quick tiers are re-run afterwards before committing evidence).
cd "$(dirname "$0")/.."
for p in "$@"; do
  s=$(date +%s)
  out=$(timeout 3300 ./check $p --tier thorough 2>&1 | grep -E "^(VIOLATION|KNOWN-FINDING)" | cut -c1-160 | head -3)
  rc=$?
  e=$(date +%s)
  echo "$p thorough $((e-s))s: ${out:-PASS}"
done
