#!/usr/bin/env python3
"""Common machinery of the /verif checks (see DESIGN.md section 3).

A check = (1) build the Coq development for the property and count the theorems of
coq/Props/<id>.v that the kernel accepted, (2) build the Go harness against /repo's current
working tree (tag `verif`), run it, (3) evaluate the Coq model / monitors on what the
implementation did (coqc + vm_compute on a generated cases file), (4) decide and write
evidence/<id>.json.
"""
import fcntl
import json
import os
import re
import shutil
import subprocess
import sys
import tempfile
import time

VERIF = os.path.dirname(os.path.dirname(os.path.abspath(__file__)))
REPO = os.environ.get("VERIF_REPO", "/repo")
COQ = os.path.join(VERIF, "coq")
HARNESS = os.path.join(VERIF, "harness")
NS = "BD"
FILE_TIMEOUT = int(os.environ.get("VERIF_COQ_FILE_TIMEOUT", "420"))   # seconds per .v file

GOENV = {
    "GOFLAGS": "-mod=mod",
    "GOPROXY": "off",
    "GOSUMDB": "off",
    "GOTOOLCHAIN": "local",
    "CGO_ENABLED": "0",
    "TZ": "UTC",
}

FORBIDDEN = re.compile(
    r"\b(Admitted|admit|Axiom|Axioms|Parameter|Parameters|Conjecture|Conjectures)\b|Unset\s+Guard|"
    r"Admit\s+Obligations|bypass_check|type-in-type|impredicative-set|Unset\s+Positivity|Unset\s+Universe"
)

TRUSTED_COMMON = [
    "Coq 8.16.1 kernel (coqc; vm_compute used for finite sweeps, _refuted witnesses and cases files; native_compute not used)",
    "hand-written Gallina model of the anchored Go code (DESIGN.md section 2/5) - modelled, not verified",
    "correspondence harness: Go driver built from /repo with -tags verif, JSON->cases.v printer, comparison (tools/)",
    "Go toolchain/runtime, OS kernel and third-party libraries are not verified",
]


def env_go():
    e = dict(os.environ)
    e.update(GOENV)
    return e


class Lock:
    """Serialises builds between concurrently running checks."""

    def __init__(self, name="build"):
        self.path = os.path.join(VERIF, ".lock")
        self.name = name

    def __enter__(self):
        self.f = open(self.path, "a+")
        fcntl.flock(self.f, fcntl.LOCK_EX)
        return self

    def __exit__(self, *a):
        fcntl.flock(self.f, fcntl.LOCK_UN)
        self.f.close()


def sh(cmd, cwd=None, env=None, timeout=None, inp=None):
    t0 = time.time()
    try:
        p = subprocess.run(cmd, cwd=cwd, env=env, timeout=timeout, input=inp,
                           stdout=subprocess.PIPE, stderr=subprocess.STDOUT, text=True,
                           shell=isinstance(cmd, str))
        return p.returncode, p.stdout, time.time() - t0
    except subprocess.TimeoutExpired as e:
        out = e.stdout if isinstance(e.stdout, str) else (e.stdout or b"").decode("utf-8", "replace")
        return 124, out + "\n[timeout]", time.time() - t0


# ------------------------------------------------------------------------------------------
# Coq
# ------------------------------------------------------------------------------------------

def coq_files():
    out = []
    for root, dirs, files in os.walk(COQ):
        dirs.sort()
        for f in sorted(files):
            if f.endswith(".v"):
                out.append(os.path.relpath(os.path.join(root, f), COQ))
    return out


def gen_coqproject():
    """_CoqProject and Makefile are regenerated from the directory listing."""
    lines = ["-R . %s" % NS, "-arg -w", "-arg -notation-overridden,-deprecated-hint-without-locality,-deprecated-instance-without-locality"]
    lines += coq_files()
    txt = "\n".join(lines) + "\n"
    p = os.path.join(COQ, "_CoqProject")
    old = open(p).read() if os.path.exists(p) else None
    if old != txt or not os.path.exists(os.path.join(COQ, "Makefile")):
        open(p, "w").write(txt)
        rc, out, _ = sh(["coq_makefile", "-f", "_CoqProject", "-o", "Makefile"], cwd=COQ)
        if rc != 0:
            raise RuntimeError("coq_makefile failed: " + out)


def coq_make(targets=None, timeout=1500, keep_going=False):
    """Full .vo build (no -vos) of the given targets (default: all)."""
    with Lock():
        gen_coqproject()
        # every single coqc is bounded (a diverging tactic in one file must not hold the build lock for long)
        cmd = ["make", "-j16", "TIMECMD=timeout %d" % FILE_TIMEOUT]
        if keep_going:
            cmd.append("-k")
        if targets:
            cmd += targets
        rc, out, dt = sh(cmd, cwd=COQ, timeout=timeout)
    return rc == 0, out, dt


def scan_forbidden():
    """Reject Admitted/admit/Axiom/... anywhere, and Variable/Hypothesis outside a Section."""
    bad = []
    for f in coq_files():
        depth = 0
        txt = open(os.path.join(COQ, f)).read()
        txt_nc = strip_comments(txt)
        for ln, line in enumerate(txt_nc.split("\n"), 1):
            if FORBIDDEN.search(line):
                bad.append("%s:%d: %s" % (f, ln, line.strip()[:80]))
            s = line.strip()
            if re.match(r"^Section\s+\w+", s):
                depth += 1
            elif re.match(r"^End\s+\w+", s) and depth > 0:
                depth -= 1
            elif depth == 0 and re.match(r"^(Variable|Variables|Hypothesis|Hypotheses|Context)\b", s):
                bad.append("%s:%d: %s outside a Section" % (f, ln, s[:60]))
    return bad


def strip_comments(txt):
    out = []
    depth = 0
    i = 0
    n = len(txt)
    instr = False
    while i < n:
        c = txt[i]
        if depth == 0 and c == '"':
            instr = not instr
            out.append(c)
            i += 1
            continue
        if not instr and txt.startswith("(*", i):
            depth += 1
            i += 2
            continue
        if not instr and depth > 0 and txt.startswith("*)", i):
            depth -= 1
            i += 2
            continue
        if depth == 0:
            out.append(c)
        elif c == "\n":
            out.append(c)
        i += 1
    return "".join(out)


THM = re.compile(r"^\s*(Theorem|Lemma|Corollary|Example|Fact|Proposition)\s+([A-Za-z0-9_']+)", re.M)


def props_theorems(pid):
    p = os.path.join(COQ, "Props", pid + ".v")
    if not os.path.exists(p):
        return []
    return [(m.group(2), strip_comments(open(p).read())[: m.start()].count("\n") + 1)
            for m in THM.finditer(strip_comments(open(p).read()))]


def coq_prove(pid, extra=()):
    """Build everything Props/<pid>.v needs, then compile Props/<pid>.v itself capturing the
    Print Assumptions output.  Returns dict(obligations, discharged, assumptions, ok, log)."""
    thms = props_theorems(pid)
    res = {"obligations": len(thms), "discharged": 0, "ok": False, "assumptions": [], "log": "",
           "theorems": [t for t, _ in thms], "failed_at": None}
    ok, out, dt = coq_make(["Props/%s.vo" % pid] + list(extra))
    res["make_s"] = round(dt, 1)
    if not ok:
        res["log"] = out[-3000:]
        # which theorem (if the failure is inside the Props file)
        m = re.search(r'File "\./Props/%s\.v", line (\d+)' % pid, out)
        if m:
            ln = int(m.group(1))
            res["discharged"] = len([1 for _, l in thms if l < ln and not _covers(thms, l, ln)])
            res["failed_at"] = "Props/%s.v line %d" % (pid, ln)
        else:
            m2 = re.search(r'File "\./([^"]+)", line (\d+)', out)
            res["failed_at"] = "%s line %s" % (m2.group(1), m2.group(2)) if m2 else "build"
        return res
    # recompile the Props file alone to capture Print Assumptions (about a second)
    with Lock():
        rc, out, _ = sh(["coqc", "-R", ".", NS, "-w", "-notation-overridden", "Props/%s.v" % pid], cwd=COQ, timeout=600)
    res["log"] = out[-3000:]
    if rc != 0:
        res["failed_at"] = "Props/%s.v" % pid
        return res
    res["ok"] = True
    res["discharged"] = len(thms)
    res["assumptions"] = parse_assumptions(out)
    return res


def _covers(thms, l, ln):
    # theorem starting at l covers line ln if the next theorem starts after ln
    nxt = [x for _, x in thms if x > l]
    return (min(nxt) if nxt else 10 ** 9) > ln


def parse_assumptions(out):
    """Returns the list of distinct axioms reported by Print Assumptions ([] = all closed)."""
    ax = []
    blocks = re.split(r"\n(?=Closed under the global context|Axioms:)", "\n" + out)
    for b in blocks:
        if b.startswith("Axioms:"):
            for m in re.finditer(r"^([A-Za-z0-9_.']+)\s*:", b, re.M):
                if m.group(1) not in ax and m.group(1) != "Axioms":
                    ax.append(m.group(1))
    return ax


def coq_eval(scratch, name, text, timeout=1800, mem_gb=12):
    """Compile a generated file against the built development; returns (rc, output, seconds)."""
    p = os.path.join(scratch, name + ".v")
    open(p, "w").write(text)
    cmd = ("ulimit -s unlimited 2>/dev/null || ulimit -s $(ulimit -H -s) 2>/dev/null; ulimit -v %d; "
           "exec coqc -R %s %s -w -notation-overridden %s" % (mem_gb * 1024 * 1024, COQ, NS, p))
    return sh(["bash", "-c", cmd], cwd=scratch, timeout=timeout)


def coq_list_result(out, name):
    """Parse `name = [a; b; ...]` (numbers / tuples of numbers) printed by `Print name.`"""
    flat = re.sub(r"\s+", " ", out)
    m = re.search(r"\b%s\s*=\s*(\[.*?\])\s*:" % re.escape(name), flat)
    if not m:
        return None
    body = m.group(1)
    if body == "[]":
        return []
    items = []
    depth = 0
    cur = ""
    for ch in body[1:-1]:
        if ch in "([":
            depth += 1
        if ch in ")]":
            depth -= 1
        if ch == ";" and depth == 0:
            items.append(cur.strip())
            cur = ""
        else:
            cur += ch
    if cur.strip():
        items.append(cur.strip())
    res = []
    for it in items:
        nums = [int(x) for x in re.findall(r"-?\d+", it)]
        res.append(nums[0] if len(nums) == 1 and not it.startswith("(") else tuple(nums))
    return res


# ------------------------------------------------------------------------------------------
# Go harness
# ------------------------------------------------------------------------------------------

def go_build(tool, scratch, tags="verif"):
    """Builds harness/cmd/<tool> against the current working tree of REPO (default /repo; VERIF_REPO
    points the whole check at a scratch worktree).  The harness module is copied into the scratch
    directory first (its go.mod `replace` is pointed at REPO, go.sum taken from REPO), so /verif is not
    written to and concurrent checks do not interfere."""
    hdir = os.path.join(scratch, "harness")
    if not os.path.exists(hdir):
        shutil.copytree(HARNESS, hdir, ignore=shutil.ignore_patterns("go.sum"))
        gm = open(os.path.join(hdir, "go.mod")).read()
        gm = re.sub(r"replace github.com/ErdemOzgen/blackdagger => \S+", "replace github.com/ErdemOzgen/blackdagger => " + REPO, gm)
        open(os.path.join(hdir, "go.mod"), "w").write(gm)
        shutil.copyfile(os.path.join(REPO, "go.sum"), os.path.join(hdir, "go.sum"))
    out_bin = os.path.join(scratch, "bin-" + tool)
    rc, out, dt = sh(["go", "build", "-tags", tags, "-o", out_bin, "./cmd/" + tool],
                     cwd=hdir, env=env_go(), timeout=1500)
    if rc != 0:
        return None, out, dt
    return out_bin, out, dt


def run_tool(binpath, args, timeout=1200, env_extra=None, cwd=None):
    e = env_go()
    if env_extra:
        e.update(env_extra)
    return sh([binpath] + [str(a) for a in args], env=e, timeout=timeout, cwd=cwd)


def read_jsonl(path):
    out = []
    with open(path) as f:
        for line in f:
            line = line.strip()
            if line:
                out.append(json.loads(line))
    return out


# ------------------------------------------------------------------------------------------
# Coq term printers
# ------------------------------------------------------------------------------------------

def cbool(b):
    return "true" if b else "false"


def clist(xs):
    return "[" + "; ".join(xs) + "]"


def cnat(n):
    return str(int(n))


def cz(n):
    return "(%d)%%Z" % int(n)


def cstring(s):
    """Coq string literal for a byte string / str (bytes >= 128 and controls via explicit ascii)."""
    if isinstance(s, str):
        b = s.encode("utf-8")
    else:
        b = bytes(s)
    if all(32 <= c < 127 and c != 34 for c in b):
        return '"' + b.decode("ascii") + '"'
    # general form: concatenation of literal runs and explicit characters
    parts = []
    run = ""
    for c in b:
        if 32 <= c < 127 and c != 34:
            run += chr(c)
        else:
            if run:
                parts.append('"%s"' % run)
                run = ""
            parts.append("(String (ascii_of_nat %d) EmptyString)" % c)
    if run:
        parts.append('"%s"' % run)
    if not parts:
        return '""'
    return "(" + " ++ ".join(parts) + ")%string"


# ------------------------------------------------------------------------------------------
# splitmix64 (every random choice of the Python side derives from VERIF_SEED)
# ------------------------------------------------------------------------------------------

class Rng:
    def __init__(self, seed):
        self.s = seed & 0xFFFFFFFFFFFFFFFF

    def next(self):
        self.s = (self.s + 0x9E3779B97F4A7C15) & 0xFFFFFFFFFFFFFFFF
        z = self.s
        z = ((z ^ (z >> 30)) * 0xBF58476D1CE4E5B9) & 0xFFFFFFFFFFFFFFFF
        z = ((z ^ (z >> 27)) * 0x94D049BB133111EB) & 0xFFFFFFFFFFFFFFFF
        return z ^ (z >> 31)

    def below(self, n):
        return self.next() % n

    def choice(self, xs):
        return xs[self.below(len(xs))]


# ------------------------------------------------------------------------------------------
# Check context: findings, violations, evidence
# ------------------------------------------------------------------------------------------

def load_known():
    """The known findings: per-property fragments known_findings.d/*.json are authoritative (they are what the
    property's engineer maintains); known_findings.json is the single committed file generated from them by
    tools/gen_manifest.py - entries of it that no fragment carries are kept.  Never written at run time."""
    out = []
    ids = set()
    d = os.path.join(VERIF, "known_findings.d")
    if os.path.isdir(d):
        for f in sorted(os.listdir(d)):
            if f.endswith(".json"):
                for k in json.load(open(os.path.join(d, f))):
                    if k.get("id") not in ids:
                        ids.add(k.get("id"))
                        out.append(k)
    kf = os.path.join(VERIF, "known_findings.json")
    if os.path.exists(kf):
        for k in json.load(open(kf)):
            if k.get("id") not in ids:
                ids.add(k.get("id"))
                out.append(k)
    return out


class Ctx:
    def __init__(self, pid, tier, seed):
        self.pid = pid
        self.tier = tier
        self.seed = seed
        self.t0 = time.time()
        self.scratch = tempfile.mkdtemp(prefix="verif-%s-" % pid)
        self.cov = {"evaluations": 0, "distinct_nontrivial": 0, "rule": "", "samples": [],
                    "obligations": 0, "discharged": 0, "checker_cmd": "", "trusted_base": list(TRUSTED_COMMON),
                    "traces_validated_against_impl": 0}
        self.assumptions = []
        self.failures = []       # dict(kind, case, what, theorem?)
        self.known_hits = {}     # finding id -> count
        self.notes = []
        self.level = "proof"
        self.known = [k for k in load_known() if k.get("property") == pid and k.get("state") == "known"]

    # -- proofs ------------------------------------------------------------------------
    def proofs(self, extra=()):
        """extra: further .vo targets the correspondence needs (model entry points)."""
        bad = scan_forbidden()
        r = coq_prove(self.pid, extra)
        self.cov["obligations"] = r["obligations"]
        self.cov["discharged"] = r["discharged"] if not bad else 0
        self.cov["theorems"] = r["theorems"]
        self.cov["checker_cmd"] = ("cd /verif/coq && coq_makefile -f _CoqProject -o Makefile && make Props/%s.vo "
                                   "(full .vo build, coqc 8.16.1; Print Assumptions under every theorem; "
                                   "thorough tier: coqchk -silent -o)" % self.pid)
        self.cov["print_assumptions"] = r["assumptions"] if r["assumptions"] else "Closed under the global context (every theorem)"
        if r["assumptions"]:
            self.cov["trusted_base"].append("axioms reported by Print Assumptions: " + ", ".join(r["assumptions"]))
        else:
            self.cov["trusted_base"].append("axioms: none (Print Assumptions: Closed under the global context for every theorem of Props/%s.v)" % self.pid)
        if bad:
            self.failures.append({"kind": "proof", "what": "forbidden vernacular in the development", "case": bad[:10]})
        if not r["ok"]:
            self.failures.append({"kind": "proof", "what": "proof obligation no longer checks: %s" % r["failed_at"],
                                  "case": {"log_tail": r["log"][-1500:]}})
        self.proof_ok = r["ok"] and not bad
        return self.proof_ok

    def coqchk(self):
        """Thorough tier: independent re-check of the compiled Props file and its dependencies."""
        t0 = time.time()
        with Lock():
            rc, out, dt = sh(["coqchk", "-silent", "-o", "-R", ".", NS, "%s.Props.%s" % (NS, self.pid)], cwd=COQ, timeout=3000)
        self.cov["coqchk"] = {"rc": rc, "seconds": round(dt, 1), "tail": out[-1200:]}
        if rc != 0:
            self.failures.append({"kind": "proof", "what": "coqchk rejected the compiled development", "case": {"log_tail": out[-1500:]}})
        return rc == 0

    # -- results -----------------------------------------------------------------------
    def sample(self, x, limit=4):
        if len(self.cov["samples"]) < limit:
            self.cov["samples"].append(x)

    def fail(self, kind, what, case, cls=None):
        """kind: 'monitor' (the property fails on what the implementation did - a concrete failing
        input), 'correspondence' (model and implementation differ), 'proof'.
        cls: decidable class keys of the case, matched against known_findings.json."""
        k = self.match_known(cls or {}, kind)
        if k is not None:
            self.known_hits.setdefault(k["id"], {"n": 0, "what": k["what"], "example": case})
            self.known_hits[k["id"]]["n"] += 1
            return
        self.failures.append({"kind": kind, "what": what, "case": case, "class": cls})

    def match_known(self, cls, kind):
        for k in self.known:
            m = k.get("matches", {})
            if m and all(cls.get(a) == b for a, b in m.items()):
                return k
        return None

    def finish(self, search=None):
        """Decide.  `search` (optional callable) is run when only a proof obligation or the
        correspondence broke, to look for a concrete failing input; it returns a case or None."""
        self.cov["traces_validated_against_impl"] = self.cov.get("traces_validated_against_impl", 0)
        for fid, h in sorted(self.known_hits.items()):
            print("KNOWN-FINDING: property=%s %s [%s; %d case(s) in this run]" % (self.pid, h["what"], fid, h["n"]))
        rc = 0
        if self.failures:
            rc = 1
            concrete = [f for f in self.failures if f["kind"] == "monitor"]
            found = None
            if not concrete and search is not None:
                try:
                    found = search()
                except Exception as e:  # the search is best effort
                    self.notes.append("search failed: %r" % (e,))
            os.makedirs(os.path.join(VERIF, "replays"), exist_ok=True)
            rp = os.path.join(VERIF, "replays", "%s-%d.json" % (self.pid, int(time.time())))
            body = {"property": self.pid, "tier": self.tier, "seed": self.seed,
                    "failures": (concrete or self.failures)[:20], "total_failures": len(self.failures)}
            if found is not None:
                body["failing_input"] = found
            json.dump(body, open(rp, "w"), indent=1, default=str)
            if concrete or found is not None:
                print("VIOLATION property=%s replay=%s" % (self.pid, rp))
            else:
                print("VIOLATION property=%s replay=%s no-failing-input-found" % (self.pid, rp))
            for f in (concrete or self.failures)[:5]:
                print("  %s: %s" % (f["kind"], f["what"]))
        self.write_evidence(rc)
        shutil.rmtree(self.scratch, ignore_errors=True)
        return rc

    def write_evidence(self, rc):
        ev = {
            "property_id": self.pid,
            "tier": self.tier,
            "seed": self.seed,
            "level": self.level,
            "coverage": self.cov,
            "assumptions": self.assumptions,
            "wall_s": round(time.time() - self.t0, 1),
            "violations": len(self.failures),
            "known_findings_hit": {k: v["n"] for k, v in self.known_hits.items()},
            "notes": self.notes,
        }
        # evidence is about /repo itself; a run pointed at a scratch worktree (VERIF_REPO) must not overwrite it
        edir = os.path.join(VERIF, "evidence") if REPO == "/repo" else os.path.join(VERIF, ".build", "evidence-scratch")
        os.makedirs(edir, exist_ok=True)
        json.dump(ev, open(os.path.join(edir, self.pid + ".json"), "w"), indent=1, default=str)
