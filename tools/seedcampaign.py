#!/usr/bin/env python3
"""Re-runs tools/seedtest.py for every seeded change under seeded/ on the current /repo HEAD (demonstration with / without the
patch, then the check(s) that detected it before, each against a scratch worktree; the existing suite is not re-run).
    python3 tools/seedcampaign.py <lane> <lanes> [Cxx,Cyy,...]
Start one process per lane (e.g. 5 lanes) - each handles every <lanes>-th seed; prints one line per seed.  seeded/*/meta.json is
updated in place (earlier results are kept under "earlier_results"); afterwards run the quick checks on /repo again (the evidence files
are not touched by runs against a scratch tree) and `python3 tools/gen_status.py`."""
import glob
import json
import os
import subprocess
import sys

HERE = os.path.dirname(os.path.dirname(os.path.abspath(__file__)))


def main():
    lane, lanes = int(sys.argv[1]), int(sys.argv[2])
    only = set(sys.argv[3].split(",")) if len(sys.argv) > 3 else None
    items = []
    for m in sorted(glob.glob(os.path.join(HERE, "seeded", "*", "meta.json"))):
        d = json.load(open(m))
        if only and d["property"] not in only:
            continue
        name = os.path.basename(os.path.dirname(m))
        det = d.get("detected_by") or [d["property"]]
        items.append((d["property"], os.path.dirname(m), name, ",".join(det)))
    for k, (pid, d, name, checks) in enumerate(items):
        if k % lanes != lane:
            continue
        p = subprocess.run([sys.executable, os.path.join(HERE, "tools", "seedtest.py"), pid, d, name, "--checks", checks, "--skip-suite"],
                           cwd=HERE, stdout=subprocess.PIPE, stderr=subprocess.STDOUT, text=True)
        lines = [l for l in p.stdout.split("\n") if any(w in l for w in ('"confirmed"', "detected", "MISSED", "does not apply", "Error"))]
        print(name, "|", " ; ".join(l.strip() for l in lines)[:300], flush=True)


if __name__ == "__main__":
    main()
