#!/usr/bin/env python3
"""Regenerates the machine-derived block of DESIGN.md (between the GENERATED markers): per property the theorems of
coq/Props/<id>.v, the numbers of the last evidence file, known findings / fixes, and which seeded changes
(seeded/*/meta.json) each check detected.  python3 tools/gen_status.py"""
import glob
import json
import os
import re
import sys

HERE = os.path.dirname(os.path.dirname(os.path.abspath(__file__)))
sys.path.insert(0, os.path.join(HERE, "tools"))
import vlib  # noqa: E402

BEGIN = "<!-- GENERATED:STATUS BEGIN (tools/gen_status.py) -->"
END = "<!-- GENERATED:STATUS END -->"


def theorems(pid):
    p = os.path.join(HERE, "coq", "Props", pid + ".v")
    if not os.path.exists(p):
        return []
    txt = vlib.strip_comments(open(p).read())
    return re.findall(r"^\s*(Theorem|Lemma|Corollary|Example)\s+([A-Za-z0-9_']+)", txt, re.M)


def main():
    props = [json.loads(l) for l in open(os.path.join(HERE, "properties.jsonl"))]
    known = vlib.load_known()
    seeded = {}
    for m in sorted(glob.glob(os.path.join(HERE, "seeded", "*", "meta.json"))):
        d = json.load(open(m))
        seeded.setdefault(d["property"], []).append(d)
    out = [BEGIN, "",
           "### 9.1 Per property: theorems, last evidence, findings, seeded changes (generated, do not edit)", ""]
    for p in props:
        pid = p["id"]
        th = theorems(pid)
        full = [n for k, n in th if k != "Example" and not n.endswith("_partial") and "_refuted" not in n]
        part = [n for k, n in th if n.endswith("_partial") or "_partial_" in n]
        ref = [n for k, n in th if "_refuted" in n]
        ex = [n for k, n in th if k == "Example"]
        out.append("**%s - %s**" % (pid, p["title"]))
        out.append("")
        out.append("* theorems in `coq/Props/%s.v`: %d (+%d Examples).  Full: %s.%s%s" % (
            pid, len(th) - len(ex), len(ex), ", ".join("`%s`" % n for n in full) or "-",
            ("  Partial (explicit decidable premise): " + ", ".join("`%s`" % n for n in part) + ".") if part else "",
            ("  Refuted by witness (the faithful model violates the full statement): " + ", ".join("`%s`" % n for n in ref) + ".") if ref else ""))
        ev = os.path.join(HERE, "evidence", pid + ".json")
        if os.path.exists(ev):
            e = json.load(open(ev))
            c = e["coverage"]
            out.append("* last evidence (%s tier, seed %s, %.0f s): obligations %s / discharged %s; evaluations %s; distinct non-trivial %s; "
                       "traces validated against the implementation %s; violations %s; axioms: %s" % (
                           e["tier"], e["seed"], e["wall_s"], c.get("obligations"), c.get("discharged"), c.get("evaluations"),
                           c.get("distinct_nontrivial"), c.get("traces_validated_against_impl"), e.get("violations"),
                           c.get("print_assumptions") if isinstance(c.get("print_assumptions"), str) else ", ".join(c.get("print_assumptions") or [])))
        ks = [k for k in known if k.get("property") == pid]
        for k in ks:
            if k.get("state") == "fixed":
                out.append("* fixed (%s): %s" % (k.get("commit"), re.sub(r"^fixed: property=\S+ \S+ ", "", k["what"])[:260]))
        for k in ks:
            if k.get("state") == "known":
                out.append("* KNOWN FINDING `%s` (class %s): %s" % (k["id"], json.dumps(k.get("matches")), k["what"][:300]))
        for s in seeded.get(pid, []):
            det = s.get("detected_by") or []
            chk = s.get("checks", {})
            how = []
            for c, r in chk.items():
                if r.get("detected"):
                    nf = any("no-failing-input-found" in l for l in r.get("violation_lines", []))
                    how.append("%s%s" % (c, " (proof/correspondence only)" if nf else " (failing input)"))
            missed = [c for c, r in chk.items() if not r.get("detected")]
            if not s.get("confirmed"):
                out.append("* seeded `%s` (OBSOLETE on the final tree): %s - %s" % (s["name"], (s.get("summary") or "")[:200], s.get("note", "the demonstration no longer fails with the patch")))
                continue
            out.append("* seeded `%s`: %s - needs: %s.  Detected by: %s%s" % (
                s["name"], (s.get("summary") or "")[:200], (s.get("needs") or "")[:160], ", ".join(how) or "NONE",
                ("; not by: " + ", ".join(missed)) if missed else ""))
        out.append("")
    out.append(END)
    block = "\n".join(out)
    dp = os.path.join(HERE, "DESIGN.md")
    txt = open(dp).read()
    if BEGIN in txt:
        txt = txt[:txt.index(BEGIN)] + block + txt[txt.index(END) + len(END):]
    else:
        txt = txt.rstrip("\n") + "\n\n" + block + "\n"
    open(dp, "w").write(txt)
    print("DESIGN.md status block regenerated (%d properties)" % len(props))


if __name__ == "__main__":
    main()
