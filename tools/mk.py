#!/usr/bin/env python3
"""tools/mk.py [targets...] : regenerate _CoqProject/Makefile and build (full .vo)."""
import sys, os
sys.path.insert(0, os.path.dirname(os.path.abspath(__file__)))
import vlib
ok, out, dt = vlib.coq_make(sys.argv[1:] or None, keep_going=True)
print(out[-6000:])
print("OK" if ok else "FAILED", round(dt, 1), "s")
sys.exit(0 if ok else 1)
